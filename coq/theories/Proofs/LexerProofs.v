(* Proofs about the scanner model (Model/Lexer.v): the two opener searches agree, the two closer
   searches agree, hence the two tokenizers produce the same outer tokens for every byte string;
   fuel = length + 1 always suffices; the outer tokens partition the source. *)
From Twig Require Import Base.Bytes Model.Lexer.
From Coq Require Import Arith.

Local Arguments prefixb : simpl nomatch.

Lemma eqb_sym x y : Byte.eqb x y = Byte.eqb y x.
Proof.
  destruct (Byte.eqb x y) eqn:E1; destruct (Byte.eqb y x) eqn:E2; auto.
  - apply byte_eqb_eq in E1. subst. rewrite byte_eqb_refl in E2. discriminate.
  - apply byte_eqb_eq in E2. subst. rewrite byte_eqb_refl in E1. discriminate.
Qed.
Lemma eqb_neq_sym x y : Byte.eqb x y = false -> Byte.eqb y x = false.
Proof. rewrite eqb_sym. auto. Qed.

(* ------------------------------------------------------------------ index_of *)
Lemma index_of_cons p c r : prefixb p (c :: r) = false ->
  index_of p (c :: r) = match index_of p r with Some i => Some (S i) | None => None end.
Proof. intros H. cbn [index_of]. rewrite H. reflexivity. Qed.

Lemma index_of_head p s : prefixb p s = true -> index_of p s = Some 0.
Proof. intros H. destruct s; cbn [index_of]; rewrite H; reflexivity. Qed.

Lemma index_of_nohead p s : prefixb p s = false -> index_of p s = None \/ exists i, index_of p s = Some (S i).
Proof.
  intros H. destruct s as [|c r]; cbn [index_of]; rewrite H; auto.
  destruct (index_of p r) as [i|]; eauto.
Qed.

Lemma prefixb_length p s : prefixb p s = true -> length p <= length s.
Proof. intro H. apply prefixb_spec in H. destruct H as [r ->]. rewrite app_length. lia. Qed.

Lemma index_of_sound p s i : index_of p s = Some i ->
  prefixb p (skipn i s) = true /\ i + length p <= length s.
Proof.
  revert i. induction s as [|c r IH]; intros i H; cbn [index_of] in H.
  - destruct (prefixb p []) eqn:E; [|discriminate]. inversion H; subst. cbn [skipn].
    split; [exact E|]. apply prefixb_length in E. simpl in *. lia.
  - destruct (prefixb p (c :: r)) eqn:E.
    + inversion H; subst. cbn [skipn]. split; [exact E|]. apply prefixb_length in E. simpl in *. lia.
    + destruct (index_of p r) as [j|] eqn:Ej; [|discriminate]. inversion H; subst.
      destruct (IH j eq_refl) as [H1 H2]. cbn [skipn]. split; [exact H1|]. simpl. lia.
Qed.

Lemma index_of_first p s i : index_of p s = Some i -> forall j, j < i -> prefixb p (skipn j s) = false.
Proof.
  revert i. induction s as [|c r IH]; intros i H j Hj; cbn [index_of] in H.
  - destruct (prefixb p []); [inversion H; subst; lia|discriminate].
  - destruct (prefixb p (c :: r)) eqn:E; [inversion H; subst; lia|].
    destruct (index_of p r) as [k|] eqn:Ek; [|discriminate]. inversion H; subst.
    destruct j as [|j]; [exact E|]. cbn [skipn]. apply (IH k eq_refl). lia.
Qed.

Lemma index_of_complete p s j : prefixb p (skipn j s) = true -> j <= length s ->
  exists i, index_of p s = Some i /\ i <= j.
Proof.
  revert j. induction s as [|c r IH]; intros j H Hj.
  - simpl in Hj. assert (j = 0) by lia. subst. cbn [skipn] in H. exists 0. cbn [index_of]. rewrite H. auto.
  - cbn [index_of]. destruct (prefixb p (c :: r)) eqn:E; [exists 0; split; [reflexivity|lia]|].
    destruct j as [|j]; [cbn [skipn] in H; congruence|]. cbn [skipn] in H. simpl in Hj.
    destruct (IH j H ltac:(lia)) as [i [Hi Hle]]. rewrite Hi. exists (S i). split; [reflexivity|lia].
Qed.

Lemma index_of_none p s : index_of p s = None -> forall j, j <= length s -> prefixb p (skipn j s) = false.
Proof.
  intros H j Hj. destruct (prefixb p (skipn j s)) eqn:E; [|reflexivity].
  destruct (index_of_complete p s j E Hj) as [i [Hi _]]. congruence.
Qed.

(* ------------------------------------------------------------------ nearest = scan *)
Lemma opener_none s : opener_at s = None -> forall k, prefixb (pattern k) s = false.
Proof.
  intros H k. destruct s as [|a [|b r]].
  - destruct k; reflexivity.
  - destruct k; cbn [prefixb pattern]; rewrite ?andb_false_r; reflexivity.
  - cbn [opener_at] in H.
    destruct (Byte.eqb a LB) eqn:Ea.
    + destruct (Byte.eqb b LB) eqn:Eb.
      { destruct r as [|c r']; [discriminate|]. destruct (Byte.eqb c DS); discriminate. }
      destruct (Byte.eqb b PC) eqn:Ep.
      { destruct r as [|c r']; [discriminate|]. destruct (Byte.eqb c DS); discriminate. }
      destruct (Byte.eqb b HS) eqn:Eh; [discriminate|].
      destruct k; cbn [prefixb pattern];
        rewrite ?(eqb_sym LB b), ?(eqb_sym PC b), ?(eqb_sym HS b), ?Eb, ?Ep, ?Eh;
        cbn [andb]; rewrite ?andb_false_r; reflexivity.
    + destruct k; cbn [prefixb pattern]; rewrite (eqb_sym LB a), Ea; reflexivity.
Qed.

Definition shift (o : option (nat * okind)) := match o with Some (i, k) => Some (S i, k) | None => None end.

Lemma better_shift best k c r : prefixb (pattern k) (c :: r) = false ->
  better (shift best) k (c :: r) = shift (better best k r).
Proof.
  intros H. unfold better. rewrite (index_of_cons _ _ _ H).
  destruct (index_of (pattern k) r) as [i|]; [|reflexivity].
  destruct best as [[j k']|]; cbn [shift]; [|reflexivity].
  change (S i <? S j) with (i <? j). destruct (i <? j); reflexivity.
Qed.

Lemma nearest_shift c r : opener_at (c :: r) = None -> nearest (c :: r) = shift (nearest r).
Proof.
  intros H. pose proof (opener_none _ H) as Hn. unfold nearest, kinds. cbn [fold_left].
  change (@None (nat * okind)) with (shift None) at 1.
  rewrite !better_shift by apply Hn. reflexivity.
Qed.

Definition pos_or_none (best : option (nat * okind)) : Prop :=
  match best with None => True | Some (j, _) => 0 < j end.

Lemma better_A best k s : prefixb (pattern k) s = false -> pos_or_none best -> pos_or_none (better best k s).
Proof.
  intros H Hb. unfold better. destruct (index_of_nohead _ _ H) as [E|[i E]]; rewrite E; auto.
  destruct best as [[j k']|]; [|cbn; lia].
  destruct (S i <? j); [cbn; lia|exact Hb].
Qed.
Lemma better_B best k s : prefixb (pattern k) s = true -> pos_or_none best -> better best k s = Some (0, k).
Proof.
  intros H Hb. unfold better. rewrite (index_of_head _ _ H).
  destruct best as [[j k']|]; auto. cbn in Hb. destruct (0 <? j) eqn:E; auto. apply Nat.ltb_ge in E. lia.
Qed.
Lemma better_C k0 k s : better (Some (0, k0)) k s = Some (0, k0).
Proof. unfold better. destruct (index_of (pattern k) s) as [i|]; auto. Qed.

Lemma opener_some s k : opener_at s = Some k ->
  prefixb (pattern k) s = true /\
  match k with
  | OVarT => True
  | OVar => prefixb (pattern OVarT) s = false
  | OBlockT => prefixb (pattern OVarT) s = false /\ prefixb (pattern OVar) s = false
  | OBlock => prefixb (pattern OVarT) s = false /\ prefixb (pattern OVar) s = false /\ prefixb (pattern OBlockT) s = false
  | OComment => prefixb (pattern OVarT) s = false /\ prefixb (pattern OVar) s = false /\
                prefixb (pattern OBlockT) s = false /\ prefixb (pattern OBlock) s = false
  end.
Proof.
  intros H. destruct s as [|a [|b r]]; try discriminate. cbn [opener_at] in H.
  destruct (Byte.eqb a LB) eqn:Ea; [|discriminate]. apply byte_eqb_eq in Ea. subst a.
  assert (LP : Byte.eqb LB PC = false) by reflexivity.
  assert (LH : Byte.eqb LB HS = false) by reflexivity.
  assert (PH : Byte.eqb PC HS = false) by reflexivity.
  destruct (Byte.eqb b LB) eqn:Eb.
  { apply byte_eqb_eq in Eb. subst b. destruct r as [|c r'].
    - inversion H; subst. cbn [prefixb pattern]. rewrite !byte_eqb_refl. cbn. auto.
    - destruct (Byte.eqb c DS) eqn:Ec; inversion H; subst; cbn [prefixb pattern]; rewrite !byte_eqb_refl; cbn [andb].
      + apply byte_eqb_eq in Ec. subst. rewrite byte_eqb_refl. auto.
      + rewrite (eqb_neq_sym _ _ Ec). auto. }
  destruct (Byte.eqb b PC) eqn:Ep.
  { apply byte_eqb_eq in Ep. subst b. destruct r as [|c r'].
    - inversion H; subst. cbn [prefixb pattern]. rewrite !byte_eqb_refl, ?LP. cbn. auto.
    - destruct (Byte.eqb c DS) eqn:Ec; inversion H; subst; cbn [prefixb pattern]; rewrite !byte_eqb_refl, ?LP; cbn [andb].
      + apply byte_eqb_eq in Ec. subst. rewrite byte_eqb_refl. auto.
      + rewrite (eqb_neq_sym _ _ Ec). auto. }
  destruct (Byte.eqb b HS) eqn:Eh; [|discriminate].
  apply byte_eqb_eq in Eh. subst b. inversion H; subst.
  cbn [prefixb pattern]. rewrite !byte_eqb_refl, ?LH, ?PH. cbn. auto.
Qed.

Lemma nearest_at_opener s k : opener_at s = Some k -> nearest s = Some (0, k).
Proof.
  intros H. destruct (opener_some _ _ H) as [Hk Hbefore].
  unfold nearest, kinds. cbn [fold_left].
  destruct k.
  - rewrite (better_B None OVarT s Hk I). rewrite !better_C. reflexivity.
  - pose proof (better_A None OVarT s Hbefore I) as P1.
    rewrite (better_B _ OVar s Hk P1). rewrite !better_C. reflexivity.
  - destruct Hbefore as (H1 & H2).
    pose proof (better_A None OVarT s H1 I) as P1.
    pose proof (better_A _ OVar s H2 P1) as P2.
    rewrite (better_B _ OBlockT s Hk P2). rewrite !better_C. reflexivity.
  - destruct Hbefore as (H1 & H2 & H3).
    pose proof (better_A None OVarT s H1 I) as P1.
    pose proof (better_A _ OVar s H2 P1) as P2.
    pose proof (better_A _ OBlockT s H3 P2) as P3.
    rewrite (better_B _ OBlock s Hk P3). rewrite !better_C. reflexivity.
  - destruct Hbefore as (H1 & H2 & H3 & H4).
    pose proof (better_A None OVarT s H1 I) as P1.
    pose proof (better_A _ OVar s H2 P1) as P2.
    pose proof (better_A _ OBlockT s H3 P2) as P3.
    pose proof (better_A _ OBlock s H4 P3) as P4.
    rewrite (better_B _ OComment s Hk P4). reflexivity.
Qed.

Theorem nearest_eq_scan : forall s, nearest s = scan s.
Proof.
  induction s as [|c r IH].
  - reflexivity.
  - cbn [scan]. destruct (opener_at (c :: r)) as [k|] eqn:E.
    + apply nearest_at_opener. exact E.
    + rewrite nearest_shift by exact E. rewrite IH. destruct (scan r) as [[i k]|]; reflexivity.
Qed.

(* scan finds an opener: the pattern stands at that offset and fits inside the string *)
Lemma scan_sound s i k : scan s = Some (i, k) ->
  opener_at (skipn i s) = Some k /\ prefixb (pattern k) (skipn i s) = true /\ i + length (pattern k) <= length s.
Proof.
  revert i. induction s as [|c r IH]; intros i H; cbn [scan] in H.
  - simpl in H. discriminate.
  - destruct (opener_at (c :: r)) as [k0|] eqn:E.
    + inversion H; subst. cbn [skipn]. split; [exact E|]. destruct (opener_some _ _ E) as [Hp _].
      split; [exact Hp|]. apply prefixb_length in Hp. simpl in *. lia.
    + destruct (scan r) as [[j k1]|] eqn:Es; [|discriminate]. inversion H; subst.
      destruct (IH j eq_refl) as (H1 & H2 & H3). cbn [skipn]. repeat split; auto. simpl. lia.
Qed.

Lemma scan_first s i k : scan s = Some (i, k) -> forall j, j < i -> opener_at (skipn j s) = None.
Proof.
  revert i. induction s as [|c r IH]; intros i H j Hj; cbn [scan] in H.
  - simpl in H. discriminate.
  - destruct (opener_at (c :: r)) as [k0|] eqn:E; [inversion H; subst; lia|].
    destruct (scan r) as [[i' k1]|] eqn:Es; [|discriminate]. inversion H; subst.
    destruct j as [|j]; [exact E|]. cbn [skipn]. apply (IH i' eq_refl). lia.
Qed.

Lemma scan_none s : scan s = None -> forall j, opener_at (skipn j s) = None.
Proof.
  induction s as [|c r IH]; intros H j.
  - destruct j; reflexivity.
  - cbn [scan] in H. destruct (opener_at (c :: r)) eqn:E; [discriminate|].
    destruct (scan r) as [[i k]|] eqn:Es; [discriminate|].
    destruct j as [|j]; [exact E|]. cbn [skipn]. apply IH. reflexivity.
Qed.

(* ------------------------------------------------------------------ closers *)
Lemma prefixb_cons_skipn a p s j :
  prefixb (a :: p) (skipn j s) = true ->
  j < length s /\ Byte.eqb (nth j s x00) a = true /\ prefixb p (skipn (S j) s) = true.
Proof.
  revert j. induction s as [|c r IH]; intros j H.
  - destruct j; cbn in H; discriminate.
  - destruct j as [|j].
    + cbn [skipn] in *. cbn [prefixb] in H. apply andb_true_iff in H. destruct H as [H1 H2].
      split; [simpl; lia|]. split; [simpl; rewrite eqb_sym; exact H1|exact H2].
    + cbn [skipn] in H. destruct (IH j H) as (H1 & H2 & H3). split; [simpl; lia|]. split; assumption.
Qed.

Lemma skipn_nth_cons (s : bytes) j : j < length s -> skipn j s = nth j s x00 :: skipn (S j) s.
Proof.
  revert j. induction s as [|c r IH]; intros j H; [simpl in H; lia|].
  destruct j as [|j]; [reflexivity|]. cbn [skipn nth]. apply IH. simpl in H. lia.
Qed.

Lemma prefixb_cons_intro a p s j :
  j < length s -> Byte.eqb (nth j s x00) a = true -> prefixb p (skipn (S j) s) = true ->
  prefixb (a :: p) (skipn j s) = true.
Proof.
  intros H1 H2 H3. rewrite (skipn_nth_cons s j H1). cbn [prefixb]. rewrite eqb_sym, H2, H3. reflexivity.
Qed.

Definition closer_head_not_dash (c : bytes) : Prop :=
  match c with a :: _ => Byte.eqb a DS = false | [] => False end.

Lemma closer_ok k : closer_head_not_dash (closer k) /\ length (closer k) = 2.
Proof. destruct k; split; reflexivity. Qed.

(* the dashed closer search of the small tokenizer against the look-behind of the large one *)
Lemma close_search_agree (c after : bytes) :
  closer_head_not_dash c ->
  match index_of c after, index_of (DS :: c) after with
  | Some e1, None => (0 <? e1) && Byte.eqb (nth (e1 - 1) after x00) DS = false
  | Some e1, Some e2 =>
      if e1 <? e2 then (0 <? e1) && Byte.eqb (nth (e1 - 1) after x00) DS = false
      else (0 <? e1) && Byte.eqb (nth (e1 - 1) after x00) DS = true /\ e2 = e1 - 1
  | None, Some _ => False
  | None, None => True
  end.
Proof.
  intros Hc.
  destruct (index_of c after) as [e1|] eqn:E1; destruct (index_of (DS :: c) after) as [e2|] eqn:E2.
  - destruct (index_of_sound _ _ _ E1) as [S1 L1]. destruct (index_of_sound _ _ _ E2) as [S2 L2].
    destruct (prefixb_cons_skipn _ _ _ _ S2) as (B1 & B2 & B3).
    (* c occurs at e2+1, hence e1 <= e2+1 *)
    assert (e1 <= S e2) as Hle.
    { destruct (le_lt_dec e1 (S e2)) as [?|Hgt]; [assumption|].
      pose proof (index_of_first _ _ _ E1 (S e2) Hgt). congruence. }
    (* e1 <> e2: at e2 stands a dash, at e1 the first byte of c *)
    assert (e1 <> e2) as Hne.
    { intro; subst e2. destruct c as [|a c']; [contradiction|].
      destruct (prefixb_cons_skipn _ _ _ _ S1) as (_ & A2 & _).
      apply byte_eqb_eq in A2. apply byte_eqb_eq in B2. rewrite A2 in B2. subst a.
      simpl in Hc. rewrite byte_eqb_refl in Hc. discriminate. }
    destruct (e1 <? e2) eqn:Elt.
    + apply Nat.ltb_lt in Elt.
      destruct (0 <? e1) eqn:E0; [|reflexivity]. apply Nat.ltb_lt in E0. cbn [andb].
      destruct (Byte.eqb (nth (e1 - 1) after x00) DS) eqn:Ed; [|reflexivity].
      (* a dash before e1 would give an occurrence of dash+c at e1-1 < e2 *)
      assert (prefixb (DS :: c) (skipn (e1 - 1) after) = true) as Hocc.
      { apply prefixb_cons_intro; [lia|exact Ed|]. replace (S (e1 - 1)) with e1 by lia. exact S1. }
      pose proof (index_of_first _ _ _ E2 (e1 - 1) ltac:(lia)). congruence.
    + apply Nat.ltb_ge in Elt. assert (e1 = S e2) by lia. subst e1.
      replace (S e2 - 1) with e2 by lia. cbn [Nat.ltb Nat.leb andb]. rewrite B2. split; reflexivity.
  - destruct (index_of_sound _ _ _ E1) as [S1 L1].
    destruct (0 <? e1) eqn:E0; [|reflexivity]. apply Nat.ltb_lt in E0. cbn [andb].
    destruct (Byte.eqb (nth (e1 - 1) after x00) DS) eqn:Ed; [|reflexivity].
    assert (prefixb (DS :: c) (skipn (e1 - 1) after) = true) as Hocc.
    { apply prefixb_cons_intro; [lia|exact Ed|]. replace (S (e1 - 1)) with e1 by lia. exact S1. }
    pose proof (index_of_none _ _ E2 (e1 - 1) ltac:(lia)). congruence.
  - destruct (index_of_sound _ _ _ E2) as [S2 L2].
    destruct (prefixb_cons_skipn _ _ _ _ S2) as (B1 & B2 & B3).
    pose proof (index_of_none _ _ E1 (S e2) ltac:(lia)). congruence.
  - exact I.
Qed.

Theorem close_agree : forall k after, find_close_small k after = find_close_large k after.
Proof.
  intros k after. destruct (closer_ok k) as [Hc Hl].
  destruct k; unfold find_close_small, find_close_large;
    try (destruct (index_of (closer OComment) after); reflexivity);
    match goal with |- context [index_of (DS :: closer ?K) after] =>
      pose proof (close_search_agree (closer K) after Hc) as H;
      destruct (index_of (closer K) after) as [e1|]; destruct (index_of (DS :: closer K) after) as [e2|];
      try contradiction; try reflexivity
    end.
  all: try (destruct (e1 <? e2); [rewrite H; reflexivity|destruct H as [H ->]; rewrite H;
            destruct e1 as [|e1]; [cbn in H; discriminate|]; replace (S e1 - 1) with e1 by lia;
            replace (e1 + 3) with (S e1 + 2) by lia; reflexivity]).
  all: try (rewrite H; reflexivity).
Qed.

(* ------------------------------------------------------------------ the two tokenizers agree *)
Lemma lex_with_ext find1 find2 fc1 fc2 :
  (forall s, find1 s = find2 s) -> (forall k s, fc1 k s = fc2 k s) ->
  forall fuel r, lex_with find1 fc1 fuel r = lex_with find2 fc2 fuel r.
Proof.
  intros Hf Hc. induction fuel as [|f IH]; intros r; [reflexivity|].
  cbn [lex_with]. destruct r as [|c r']; [reflexivity|].
  rewrite Hf. destruct (find2 (c :: r')) as [[i k]|]; [|reflexivity].
  destruct (escaped_at i (c :: r')); [rewrite IH; reflexivity|].
  rewrite Hc. destruct (fc2 k _) as [[[content ctrim] rest]|]; [|reflexivity].
  rewrite IH. reflexivity.
Qed.

Theorem lex_small_eq_large : forall s, lex_small s = lex_large s.
Proof.
  intro s. unfold lex_small, lex_large. apply lex_with_ext.
  - apply nearest_eq_scan.
  - apply close_agree.
Qed.

Corollary lex_choose_indep : forall t1 t2 s, lex_choose t1 s = lex_choose t2 s.
Proof.
  intros t1 t2 s. unfold lex_choose. rewrite !lex_small_eq_large.
  destruct (t1 <? length s), (t2 <? length s); reflexivity.
Qed.

(* ------------------------------------------------------------------ decomposition lemmas *)
Lemma skipn_add {A} (a b : nat) (l : list A) : skipn (a + b) l = skipn b (skipn a l).
Proof.
  revert l. induction a as [|a IH]; intros l; [reflexivity|].
  destruct l as [|x l]; [destruct b; reflexivity|]. cbn [Nat.add skipn]. apply IH.
Qed.

Lemma prefixb_split p s : prefixb p s = true -> s = p ++ skipn (length p) s.
Proof.
  intro H. apply prefixb_spec in H. destruct H as [r ->].
  rewrite skipn_app, skipn_all, Nat.sub_diag. reflexivity.
Qed.

Lemma firstn_snoc_nth (s : bytes) e : 0 < e -> e <= length s ->
  firstn e s = firstn (e - 1) s ++ [nth (e - 1) s x00].
Proof.
  revert e. induction s as [|c r IH]; intros e H0 He; [simpl in He; lia|].
  destruct e as [|e]; [lia|]. destruct e as [|e]; [reflexivity|].
  replace (S (S e) - 1) with (S e) by lia. cbn [firstn nth app].
  f_equal. simpl in He. specialize (IH (S e) ltac:(lia) ltac:(lia)).
  replace (S e - 1) with e in IH by lia. exact IH.
Qed.

Lemma find_close_large_split k after c tr rest :
  find_close_large k after = Some (c, tr, rest) ->
  after = c ++ (if tr then [DS] else []) ++ closer k ++ rest.
Proof.
  unfold find_close_large. destruct (index_of (closer k) after) as [e|] eqn:E; [|discriminate].
  destruct (index_of_sound _ _ _ E) as [S1 L1]. destruct (closer_ok k) as [_ Hl]. rewrite Hl in L1.
  pose proof (prefixb_split _ _ S1) as Hs. rewrite Hl, <- skipn_add in Hs.
  assert (after = firstn e after ++ closer k ++ skipn (e + 2) after) as Hdec.
  { rewrite <- Hs. symmetry. apply firstn_skipn. }
  intros H.
  assert (forall tr0, (tr0 = false -> c = firstn e after) -> (tr0 = true -> firstn e after = c ++ [DS]) ->
          tr = tr0 -> rest = skipn (e + 2) after -> after = c ++ (if tr then [DS] else []) ++ closer k ++ rest) as Fin.
  { intros tr0 Hf Ht -> ->. destruct tr0.
    - rewrite Hdec at 1. rewrite (Ht eq_refl), <- app_assoc. reflexivity.
    - rewrite (Hf eq_refl). exact Hdec. }
  destruct k; try (inversion H; subst; apply (Fin false); auto; discriminate).
  all: destruct ((0 <? e) && Byte.eqb (nth (e - 1) after x00) DS) eqn:Ed; inversion H; subst;
       [apply (Fin true); auto; [discriminate|]; intros _;
        apply andb_true_iff in Ed; destruct Ed as [E0 Ed]; apply Nat.ltb_lt in E0; apply byte_eqb_eq in Ed;
        rewrite (firstn_snoc_nth after e E0 ltac:(lia)), Ed; reflexivity
       |apply (Fin false); auto; discriminate].
Qed.

Lemma scan_split s i k : scan s = Some (i, k) ->
  s = firstn i s ++ pattern k ++ skipn (i + length (pattern k)) s.
Proof.
  intros H. destruct (scan_sound _ _ _ H) as (_ & Hp & _).
  pose proof (prefixb_split _ _ Hp) as Hs. rewrite <- skipn_add in Hs.
  rewrite <- Hs. symmetry. apply firstn_skipn.
Qed.

Lemma pattern_len k : 2 <= length (pattern k).
Proof. destruct k; simpl; lia. Qed.

(* ------------------------------------------------------------------ fuel: length + 1 always suffices *)
Lemma lex_cons_fuel pre r : lex_cons pre r = LexFuel -> r = LexFuel.
Proof. destruct r; simpl; congruence. Qed.

Lemma lex_large_no_fuel : forall fuel r, length r < fuel -> lex_with scan find_close_large fuel r <> LexFuel.
Proof.
  induction fuel as [|f IH]; intros r Hr; [lia|].
  cbn [lex_with]. destruct r as [|c r']; [discriminate|].
  destruct (scan (c :: r')) as [[i k]|] eqn:Es; [|discriminate].
  destruct (scan_sound _ _ _ Es) as (_ & _ & Hlen). pose proof (pattern_len k) as Hpl.
  assert (length (skipn (i + length (pattern k)) (c :: r')) < f) as Hafter.
  { rewrite skipn_length. lia. }
  destruct (escaped_at i (c :: r')).
  - intro H. apply lex_cons_fuel in H. exact (IH _ Hafter H).
  - destruct (find_close_large k _) as [[[content ctrim] rest]|] eqn:Ec; [|discriminate].
    apply find_close_large_split in Ec.
    assert (length rest < f) as Hrest.
    { apply (f_equal (@length byte)) in Ec. rewrite !app_length in Ec. lia. }
    intro H. apply lex_cons_fuel in H. exact (IH _ Hrest H).
Qed.

Theorem lex_total : forall s, lex_small s <> LexFuel /\ lex_large s <> LexFuel.
Proof.
  intro s. rewrite lex_small_eq_large. split; apply lex_large_no_fuel; lia.
Qed.

(* ------------------------------------------------------------------ the tokens partition the source *)
Lemma unlex_app a b : unlex (a ++ b) = unlex a ++ unlex b.
Proof. unfold unlex. apply flat_map_app. Qed.

Lemma unlex_text_tok t : unlex (text_tok t) = t.
Proof. destruct t; [reflexivity|]. unfold text_tok, unlex. simpl. rewrite app_nil_r. reflexivity. Qed.

Lemma lex_large_partition : forall fuel r ts,
  lex_with scan find_close_large fuel r = LexOk ts -> unlex ts = r.
Proof.
  induction fuel as [|f IH]; intros r ts H; [discriminate|].
  cbn [lex_with] in H. destruct r as [|c r']; [inversion H; reflexivity|].
  destruct (scan (c :: r')) as [[i k]|] eqn:Es.
  2:{ inversion H; subst. unfold unlex. simpl. rewrite app_nil_r. reflexivity. }
  pose proof (scan_split _ _ _ Es) as Hsplit.
  destruct (escaped_at i (c :: r')) eqn:Ee.
  - destruct (lex_with scan find_close_large f _) as [ts'| |] eqn:El; try discriminate.
    simpl in H. inversion H; subst ts. apply IH in El.
    rewrite !unlex_app, unlex_text_tok. unfold unlex at 1. cbn [flat_map unlex1]. rewrite app_nil_r, El.
    unfold escaped_at in Ee. apply andb_true_iff in Ee. destruct Ee as [E0 Eb].
    apply Nat.ltb_lt in E0. apply byte_eqb_eq in Eb.
    destruct (scan_sound _ _ _ Es) as (_ & _ & Hlen).
    rewrite Hsplit at 3. rewrite (firstn_snoc_nth (c :: r') i E0 ltac:(lia)), Eb.
    rewrite <- !app_assoc. reflexivity.
  - destruct (find_close_large k _) as [[[content ctrim] rest]|] eqn:Ec; [|discriminate].
    destruct (lex_with scan find_close_large f rest) as [ts'| |] eqn:El; try discriminate.
    simpl in H. inversion H; subst ts. apply IH in El. apply find_close_large_split in Ec.
    rewrite !unlex_app, unlex_text_tok. unfold unlex at 1. cbn [flat_map unlex1]. rewrite app_nil_r, El.
    rewrite Hsplit at 2. rewrite Ec. rewrite <- !app_assoc. reflexivity.
Qed.

Theorem lex_partition : forall s ts, lex_small s = LexOk ts -> unlex ts = s.
Proof. intros s ts H. rewrite lex_small_eq_large in H. exact (lex_large_partition _ _ _ H). Qed.

(* ------------------------------------------------------------------ text is read exactly *)
From Twig Require Import Spec.Segments.

Lemma scan_text_exact : forall t next k, clean t next -> opener_at next = Some k ->
  scan (t ++ next) = Some (length t, k).
Proof.
  induction t as [|c t IH]; intros next k Hc Ho.
  - cbn [app length]. destruct next as [|a n]; [discriminate|]. cbn [scan]. rewrite Ho. reflexivity.
  - assert (H0 : opener_at ((c :: t) ++ next) = None) by (apply (Hc 0); cbn; lia).
    cbn [app] in *. cbn [scan]. rewrite H0.
    rewrite (IH next k); [reflexivity| |exact Ho].
    intros i Hi. apply (Hc (S i)). cbn. lia.
Qed.

Lemma scan_clean_none : forall t, clean t [] -> scan t = None.
Proof.
  induction t as [|c t IH]; intros Hc; [reflexivity|].
  cbn [scan]. pose proof (Hc 0 ltac:(simpl; lia)) as H0. rewrite app_nil_r in H0. cbn [skipn] in H0. rewrite H0.
  rewrite IH; [reflexivity|]. intros i Hi. specialize (Hc (S i) ltac:(simpl; lia)).
  rewrite app_nil_r in *. exact Hc.
Qed.

Lemma nth_last_app (t next : bytes) : t <> [] -> nth (length t - 1) (t ++ next) x00 = last t x00.
Proof.
  induction t as [|c t IH]; intros H; [congruence|].
  destruct t as [|d t']; [reflexivity|].
  replace (length (c :: d :: t') - 1) with (S (length (d :: t') - 1)) by (simpl; lia).
  change (last (c :: d :: t') x00) with (last (d :: t') x00).
  rewrite <- IH by discriminate. reflexivity.
Qed.

Lemma lex_tag_step f t k c tr body restsrc :
  clean t (pattern k ++ body ++ restsrc) ->
  opener_at (pattern k ++ body ++ restsrc) = Some k ->
  (t <> [] -> last t x00 <> BSL) ->
  find_close_large k (body ++ restsrc) = Some (c, tr, restsrc) ->
  lex_with scan find_close_large (S f) (t ++ pattern k ++ body ++ restsrc) =
  lex_cons (text_tok t ++ [OTag k c tr]) (lex_with scan find_close_large f restsrc).
Proof.
  intros Hc Ho Hb Hf. cbn [lex_with].
  assert (t ++ pattern k ++ body ++ restsrc <> []) as Hne.
  { destruct t; [destruct k; discriminate|discriminate]. }
  destruct (t ++ pattern k ++ body ++ restsrc) as [|x xs] eqn:Esrc; [congruence|]. rewrite <- Esrc. clear Hne.
  rewrite (scan_text_exact t _ k Hc Ho).
  assert (escaped_at (length t) (t ++ pattern k ++ body ++ restsrc) = false) as Hesc.
  { unfold escaped_at. destruct t as [|a t']; [reflexivity|].
    rewrite nth_last_app by discriminate. cbn [length Nat.ltb Nat.leb andb].
    apply byte_eqb_neq. apply Hb. discriminate. }
  rewrite Hesc.
  rewrite skipn_add, skipn_app, skipn_all, Nat.sub_diag. cbn [skipn app].
  rewrite skipn_app, skipn_all, Nat.sub_diag. cbn [skipn app].
  rewrite Hf. rewrite firstn_app, firstn_all, Nat.sub_diag. cbn [firstn]. rewrite app_nil_r. reflexivity.
Qed.

Lemma unparse_cons s rest : unparse (s :: rest) = seg_src s ++ unparse rest.
Proof. reflexivity. Qed.

Definition wf_pre (t : bytes) (segs : list seg) : Prop :=
  t = [] \/ (clean t (unparse segs) /\ last t x00 <> BSL /\ match segs with SText _ :: _ => False | _ => True end).

Lemma lex_segments_pre : forall segs t fuel, wf_segs segs -> wf_pre t segs ->
  length (t ++ unparse segs) < fuel ->
  lex_with scan find_close_large fuel (t ++ unparse segs) = LexOk (text_tok t ++ map seg_tok segs).
Proof.
  induction segs as [|s rest IH]; intros t fuel Hwf Hpre Hlen.
  - cbn [unparse flat_map map] in *. rewrite app_nil_r in *. destruct fuel as [|f]; [lia|].
    destruct t as [|a t']; [reflexivity|]. destruct Hpre as [Hpre|(Hcl & _ & _)]; [discriminate|].
    cbn [lex_with]. rewrite (scan_clean_none _ Hcl). reflexivity.
  - destruct fuel as [|f]; [lia|]. destruct s as [t2|k c tr].
    + (* text segment: only possible when there is no pending text *)
      destruct Hpre as [->|(_ & _ & Hbad)]; [|contradiction].
      destruct Hwf as (Hne & Hcl & Hbs & Hnext & Hrest).
      rewrite unparse_cons. cbn [seg_src app text_tok map].
      rewrite (IH t2 (S f) Hrest); [destruct t2; [congruence|reflexivity]| |].
      * right. repeat split; assumption.
      * rewrite unparse_cons in Hlen. exact Hlen.
    + destruct Hwf as (Hop & Hfc & Hrest).
      rewrite unparse_cons in *. cbn [seg_src] in *. rewrite <- !app_assoc in *.
      assert (clean t (pattern k ++ tag_body k c tr ++ unparse rest)) as Hcl.
      { destruct Hpre as [->|(Hcl & _ & _)]; [intros i Hi; simpl in Hi; lia|].
        rewrite unparse_cons in Hcl. cbn [seg_src] in Hcl. rewrite <- app_assoc in Hcl. exact Hcl. }
      assert (t <> [] -> last t x00 <> BSL) as Hb.
      { destruct Hpre as [->|(_ & Hb & _)]; [congruence|auto]. }
      rewrite (lex_tag_step f t k c tr (tag_body k c tr) (unparse rest) Hcl Hop Hb Hfc).
      pose proof (IH [] f Hrest (or_introl eq_refl)) as IH0. cbn [app text_tok] in IH0.
      rewrite IH0.
      * cbn [lex_cons map]. rewrite <- app_assoc. reflexivity.
      * rewrite !app_length in Hlen. pose proof (pattern_len k). lia.
Qed.

Lemma lex_segments_fuel : forall segs fuel, wf_segs segs -> length (unparse segs) < fuel ->
  lex_with scan find_close_large fuel (unparse segs) = LexOk (map seg_tok segs).
Proof.
  intros segs fuel Hwf Hlen. exact (lex_segments_pre segs [] fuel Hwf (or_introl eq_refl) Hlen).
Qed.

Theorem lex_segments : forall segs, wf_segs segs ->
  lex_small (unparse segs) = LexOk (map seg_tok segs) /\ lex_large (unparse segs) = LexOk (map seg_tok segs).
Proof.
  intros segs Hwf. rewrite lex_small_eq_large. split; apply lex_segments_fuel; auto.
Qed.

(* ------------------------------------------------------------------ whitespace control *)
Lemma trim_left_spec s : exists ws, s = ws ++ trim_left s /\ forallb is_ws ws = true /\
  match trim_left s with c :: _ => is_ws c = false | [] => True end.
Proof.
  induction s as [|c r IH]; [exists []; repeat split|].
  cbn [trim_left]. destruct (is_ws c) eqn:E.
  - destruct IH as [ws (H1 & H2 & H3)]. exists (c :: ws). cbn [app forallb]. rewrite E, H2.
    repeat split; [f_equal; exact H1|exact H3].
  - exists []. repeat split. exact E.
Qed.

Lemma trim_left_idem s : trim_left (trim_left s) = trim_left s.
Proof.
  destruct (trim_left_spec s) as [ws (_ & _ & H)]. destruct (trim_left s) as [|c r]; [reflexivity|].
  cbn [trim_left]. rewrite H. reflexivity.
Qed.

Lemma trim_left_nows s : forallb (fun c => negb (is_ws c)) s = true -> trim_left s = s.
Proof. destruct s as [|c r]; [reflexivity|]. cbn [forallb trim_left]. intro H. apply andb_true_iff in H. destruct H as [H _]. apply negb_true_iff in H. rewrite H. reflexivity. Qed.

(* tokens without any dash are left alone *)
Definition no_dash_tok (t : otok) : bool := negb (tok_open_trim t) && negb (tok_close_trim t).

Lemma ws_control_nodash ts : forallb no_dash_tok ts = true -> ws_control false ts = ts.
Proof.
  induction ts as [|t rest IH]; [reflexivity|]. cbn [forallb]. intro H. apply andb_true_iff in H. destruct H as [Ht Hr].
  destruct t as [s|k|k c tr].
  - cbn [ws_control]. rewrite (IH Hr). destruct rest as [|t' rest']; [reflexivity|].
    cbn [forallb] in Hr. apply andb_true_iff in Hr. destruct Hr as [Ht' _].
    unfold no_dash_tok in Ht'. apply andb_true_iff in Ht'. destruct Ht' as [Ho _]. apply negb_true_iff in Ho. rewrite Ho. reflexivity.
  - cbn [ws_control tok_close_trim]. rewrite (IH Hr). reflexivity.
  - unfold no_dash_tok in Ht. apply andb_true_iff in Ht. destruct Ht as [_ Hc]. apply negb_true_iff in Hc.
    cbn [ws_control]. rewrite Hc, (IH Hr). reflexivity.
Qed.

(* only text tokens change, and only by losing whitespace at their ends *)
Lemma ws_control_shape b ts : map text_out1 (map undash_tok (ws_control b ts)) = map text_out1 (ws_control b ts).
Proof.
  revert b. induction ts as [|t rest IH]; intro b; [reflexivity|].
  destruct t as [s|k|k c tr]; cbn [ws_control map]; rewrite IH; try reflexivity.
  destruct k; reflexivity.
Qed.

Lemma strip_dashes_tokens : forall segs b,
  map seg_tok (strip_dashes b segs) = skeleton (map undash_tok (ws_control b (map seg_tok segs))).
Proof.
  induction segs as [|s rest IH]; intro b; [reflexivity|].
  destruct s as [t|k c tr].
  - cbn [map seg_tok ws_control strip_dashes].
    assert (match map seg_tok rest with t0 :: _ => if tok_open_trim t0 then trim_right (if b then trim_left t else t) else (if b then trim_left t else t) | [] => if b then trim_left t else t end
            = match rest with STag k _ _ :: _ => if open_trim k then trim_right (if b then trim_left t else t) else (if b then trim_left t else t) | _ => if b then trim_left t else t end) as E.
    { destruct rest as [|[t2|k c tr] rest']; reflexivity. }
    rewrite E. clear E.
    destruct (match rest with STag k _ _ :: _ => if open_trim k then trim_right (if b then trim_left t else t) else (if b then trim_left t else t) | _ => if b then trim_left t else t end) as [|x xs];
      cbn [map undash_tok skeleton filter nonempty_tok seg_tok]; rewrite IH; reflexivity.
  - destruct k; cbn [map seg_tok ws_control strip_dashes undash_tok skeleton filter nonempty_tok tok_close_trim undash];
      rewrite IH; reflexivity.
Qed.

Theorem dash_equals_hand_trim : forall segs ts ts',
  wf_segs segs -> wf_segs (strip_dashes false segs) ->
  lex_small (unparse segs) = LexOk ts -> lex_small (unparse (strip_dashes false segs)) = LexOk ts' ->
  ws_control false ts' = ts' /\ ts' = skeleton (map undash_tok (ws_control false ts)).
Proof.
  intros segs ts ts' Hwf Hwf' Hl Hl'.
  destruct (lex_segments _ Hwf) as [E _]. destruct (lex_segments _ Hwf') as [E' _].
  rewrite E in Hl. rewrite E' in Hl'. inversion Hl; subst ts. inversion Hl'; subst ts'.
  split; [|apply strip_dashes_tokens].
  apply ws_control_nodash. rewrite strip_dashes_tokens.
  generalize (ws_control false (map seg_tok segs)). intro l. unfold skeleton. induction l as [|t l IHl]; [reflexivity|].
  cbn [map filter]. destruct (nonempty_tok (undash_tok t)) eqn:En; [|exact IHl].
  cbn [forallb]. rewrite IHl, andb_true_r. destruct t as [s|k|k c tr]; try reflexivity. destruct k; reflexivity.
Qed.

(* ------------------------------------------------------------------ statements of Properties/C04, C13, C14 *)
Lemma wf_segs_app_inv a b : wf_segs (a ++ b) -> True.
Proof. trivial. Qed.

Lemma C14_padding_proof : forall (a b : list seg) (p : bytes) (th : nat),
  wf_segs (a ++ SText p :: b) ->
  lex_choose th (unparse (a ++ SText p :: b)) = LexOk (map seg_tok a ++ OText p :: map seg_tok b).
Proof.
  intros a b p th H. destruct (lex_segments _ H) as [E1 E2]. unfold lex_choose.
  rewrite E1, E2, map_app. destruct (th <? _); reflexivity.
Qed.

Lemma C14_comment_padding_proof : forall (a b : list seg) (c : bytes) (th : nat),
  wf_segs (a ++ STag OComment c false :: b) ->
  lex_choose th (unparse (a ++ STag OComment c false :: b)) = LexOk (map seg_tok a ++ OTag OComment c false :: map seg_tok b).
Proof.
  intros a b c th H. destruct (lex_segments _ H) as [E1 E2]. unfold lex_choose.
  rewrite E1, E2, map_app. destruct (th <? _); reflexivity.
Qed.

Lemma ws_control_length b ts : length (ws_control b ts) = length ts.
Proof.
  revert b. induction ts as [|t rest IH]; intro b; [reflexivity|].
  destruct t; cbn [ws_control length]; rewrite IH; reflexivity.
Qed.

Lemma C13_tags_untouched_proof : forall (b : bool) (ts : list otok),
  map text_out1 (map undash_tok (ws_control b ts)) = map text_out1 (ws_control b ts) /\
  length (ws_control b ts) = length ts.
Proof. intros b ts. split; [apply ws_control_shape|apply ws_control_length]. Qed.

(* text and comments only *)
Definition text_or_comment (s : seg) : Prop :=
  match s with STag OComment _ _ => True | SText _ => True | _ => False end.

Lemma ws_control_text_comment : forall segs,
  (forall s, In s segs -> text_or_comment s) ->
  flat_map text_out1 (ws_control false (map seg_tok segs)) = flat_map seg_out segs.
Proof.
  induction segs as [|s rest IH]; intro H; [reflexivity|].
  assert (forall s0, In s0 rest -> text_or_comment s0) as Hr by (intros; apply H; right; assumption).
  pose proof (H s (or_introl eq_refl)) as Hs.
  destruct s as [t|k c tr].
  - cbn [map seg_tok ws_control flat_map text_out1 seg_out]. rewrite (IH Hr).
    destruct rest as [|s' rest']; [reflexivity|].
    pose proof (Hr s' (or_introl eq_refl)) as Hs'. destruct s' as [t2|k c tr]; [reflexivity|].
    destruct k; try contradiction. reflexivity.
  - destruct k; try contradiction. cbn [map seg_tok ws_control flat_map text_out1 seg_out tok_close_trim].
    rewrite (IH Hr). reflexivity.
Qed.

Lemma C04_comments_inert_proof : forall segs : list seg, wf_segs segs ->
  (forall s, In s segs -> match s with STag OComment _ _ => True | SText _ => True | _ => False end) ->
  exists ts, lex_small (unparse segs) = LexOk ts /\
             flat_map text_out1 (ws_control false ts) = flat_map seg_out segs.
Proof.
  intros segs Hwf H. destruct (lex_segments _ Hwf) as [E _]. exists (map seg_tok segs). split; [exact E|].
  apply ws_control_text_comment. exact H.
Qed.

Lemma C04_backslash_refuted_proof :
  exists s ts, lex_small s = LexOk ts /\ flat_map text_out1 ts <> s /\
               (forall t, In t ts -> match t with OTag _ _ _ => False | _ => True end).
Proof.
  exists (b#"a" ++ [BSL] ++ b#"{{ x }}b"). eexists. split; [vm_compute; reflexivity|]. split.
  - vm_compute. discriminate.
  - intros t Ht. simpl in Ht. repeat (destruct Ht as [<-|Ht]; [exact I|]). contradiction.
Qed.
