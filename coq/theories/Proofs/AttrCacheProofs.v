(* Proofs for C20: the attribute cache is unobservable (for every eviction oracle and every history),
   the uncached resolution equals the declarative specification, and the size accounting of the cache
   keeps it within maxSize.  The constants and accounting flags come from Gen/AttrConsts.v, regenerated
   from render.go on every run. *)
From Coq Require Import Permutation.
From Twig Require Import Base.Bytes Gen.AttrConsts Model.AttrCache Spec.AttrSpec.

(* ================================================================== A. equality of types and keys *)

Scheme attr_sty_mind := Induction for attr_sty Sort Prop
with attr_flds_mind := Induction for attr_flds Sort Prop
with attr_fk_mind := Induction for attr_fk Sort Prop.
Combined Scheme attr_ty_mutind from attr_sty_mind, attr_flds_mind, attr_fk_mind.

Lemma attr_natlist_eqb_eq (a b : list nat) : attr_natlist_eqb a b = true <-> a = b.
Proof.
  revert b; induction a as [|x a IH]; intros [|y b]; simpl; split; intro H; try congruence; try reflexivity.
  - apply andb_true_iff in H. destruct H as [H1 H2]. apply Nat.eqb_eq in H1. apply IH in H2. congruence.
  - inversion H; subst. rewrite Nat.eqb_refl. simpl. apply IH. reflexivity.
Qed.

Lemma attr_mret_eqb_eq (a b : attr_mret) : attr_mret_eqb a b = true <-> a = b.
Proof.
  destruct a, b; simpl; split; intro H; try congruence; try reflexivity.
  - apply bytes_eqb_eq in H. congruence.
  - inversion H. apply bytes_eqb_refl.
  - apply Z.eqb_eq in H. congruence.
  - inversion H. apply Z.eqb_refl.
  - apply attr_natlist_eqb_eq in H. congruence.
  - inversion H. apply attr_natlist_eqb_eq. reflexivity.
Qed.

Lemma attr_meth_eqb_eq (a b : attr_meth) : attr_meth_eqb a b = true <-> a = b.
Proof.
  destruct a as [n p k r], b as [n' p' k' r']. unfold attr_meth_eqb; simpl. split; intro H.
  - repeat (apply andb_true_iff in H; destruct H as [H ?]).
    apply bytes_eqb_eq in H. apply Bool.eqb_prop in H2. apply Nat.eqb_eq in H1. apply attr_mret_eqb_eq in H0.
    congruence.
  - inversion H; subst. rewrite bytes_eqb_refl, Bool.eqb_reflx, Nat.eqb_refl. simpl.
    apply attr_mret_eqb_eq. reflexivity.
Qed.

Lemma attr_meths_eqb_eq (a b : list attr_meth) : attr_meths_eqb a b = true <-> a = b.
Proof.
  revert b; induction a as [|x a IH]; intros [|y b]; simpl; split; intro H; try congruence; try reflexivity.
  - apply andb_true_iff in H. destruct H as [H1 H2]. apply attr_meth_eqb_eq in H1. apply IH in H2. congruence.
  - inversion H; subst. apply andb_true_iff. split; [apply attr_meth_eqb_eq; reflexivity|apply IH; reflexivity].
Qed.

Lemma attr_ty_eqb_sound :
  (forall a b, attr_sty_eqb a b = true -> a = b) /\
  (forall a b, attr_flds_eqb a b = true -> a = b) /\
  (forall a b, attr_fk_eqb a b = true -> a = b).
Proof.
  apply attr_ty_mutind.
  - intros tid fs IHfs ms [tid' fs' ms'] H. simpl in H.
    apply andb_true_iff in H. destruct H as [H Hm]. apply andb_true_iff in H. destruct H as [Hi Hf].
    apply N.eqb_eq in Hi. apply IHfs in Hf. apply attr_meths_eqb_eq in Hm. congruence.
  - intros [|n' e' k' r'] H; simpl in H; [reflexivity|discriminate].
  - intros n e k IHk r IHr [|n' e' k' r'] H; simpl in H; [discriminate|].
    apply andb_true_iff in H. destruct H as [H Hr]. apply andb_true_iff in H. destruct H as [H Hk].
    apply andb_true_iff in H. destruct H as [Hn He].
    apply bytes_eqb_eq in Hn. apply Bool.eqb_prop in He. apply IHk in Hk. apply IHr in Hr. congruence.
  - intros [|p' t'] H; simpl in H; [reflexivity|discriminate].
  - intros p t IHt [|p' t'] H; simpl in H; [discriminate|].
    apply andb_true_iff in H. destruct H as [Hp Ht]. apply Bool.eqb_prop in Hp. apply IHt in Ht. congruence.
Qed.

Lemma attr_ty_eqb_refl :
  (forall a, attr_sty_eqb a a = true) /\
  (forall a, attr_flds_eqb a a = true) /\
  (forall a, attr_fk_eqb a a = true).
Proof.
  apply attr_ty_mutind; simpl; intros.
  - rewrite N.eqb_refl, H. simpl. apply attr_meths_eqb_eq. reflexivity.
  - reflexivity.
  - rewrite bytes_eqb_refl, Bool.eqb_reflx, H, H0. reflexivity.
  - reflexivity.
  - rewrite Bool.eqb_reflx, H. reflexivity.
Qed.

Lemma attr_key_eqb_eq (a b : attr_key) : attr_key_eqb a b = true <-> a = b.
Proof.
  destruct a as [t n], b as [t' n']. unfold attr_key_eqb; simpl. split; intro H.
  - apply andb_true_iff in H. destruct H as [Ht Hn].
    apply (proj1 attr_ty_eqb_sound) in Ht. apply bytes_eqb_eq in Hn. congruence.
  - inversion H; subst. rewrite (proj1 attr_ty_eqb_refl), bytes_eqb_refl. reflexivity.
Qed.

Lemma attr_key_eqb_refl (a : attr_key) : attr_key_eqb a a = true.
Proof. apply attr_key_eqb_eq. reflexivity. Qed.

Lemma attr_key_eqb_neq (a b : attr_key) : attr_key_eqb a b = false <-> a <> b.
Proof.
  split.
  - intros H E. apply attr_key_eqb_eq in E. congruence.
  - intro H. destruct (attr_key_eqb a b) eqn:E; [apply attr_key_eqb_eq in E; contradiction|reflexivity].
Qed.

(* ================================================================== B. cache transparency *)

(* every entry holds what the uncached computation gives for its key *)
Definition attr_inv (m : list (attr_key * attr_entry)) : Prop :=
  forall k e, In (k, e) m -> aen_core e = attr_compute_core (fst k) (snd k).

Lemma attr_inv_nil : attr_inv [].
Proof. intros k e []. Qed.

Lemma attr_inv_del (k : attr_key) m : attr_inv m -> attr_inv (attr_m_del k m).
Proof.
  intros Hinv k' e Hin. unfold attr_m_del in Hin. apply filter_In in Hin. apply Hinv. exact (proj1 Hin).
Qed.

Lemma attr_inv_set (k : attr_key) e m :
  attr_inv m -> aen_core e = attr_compute_core (fst k) (snd k) -> attr_inv (attr_m_set k e m).
Proof.
  intros Hinv He k' e' [Hin|Hin].
  - inversion Hin; subst. exact He.
  - apply (attr_inv_del k m Hinv). exact Hin.
Qed.

Lemma attr_m_get_in (k : attr_key) m e : attr_m_get k m = Some e -> In (k, e) m.
Proof.
  induction m as [|[k' e'] m IH]; simpl; [discriminate|].
  destruct (attr_key_eqb k' k) eqn:E.
  - intro H. inversion H; subst. apply attr_key_eqb_eq in E. subst. left. reflexivity.
  - intro H. right. apply IH. exact H.
Qed.

Lemma attr_inv_evict_one c k : attr_inv (ach_m c) -> attr_inv (ach_m (attr_evict_one c k)).
Proof.
  intro Hinv. unfold attr_evict_one. cbn [ach_m]. generalize attr_evict_deletes. intros [|]; [apply attr_inv_del; exact Hinv|exact Hinv].
Qed.

Lemma attr_inv_evict_fold (ks : list attr_key) c :
  attr_inv (ach_m c) -> attr_inv (ach_m (fold_left attr_evict_one ks c)).
Proof.
  revert c; induction ks as [|k ks IH]; intros c Hinv; simpl; [exact Hinv|].
  apply IH. apply attr_inv_evict_one. exact Hinv.
Qed.

Lemma attr_inv_evict orc c : attr_inv (ach_m c) -> attr_inv (ach_m (attr_evict orc c)).
Proof. intro Hinv. unfold attr_evict. apply attr_inv_evict_fold. exact Hinv. Qed.

(* one cached lookup: the invariant is kept and the core handed out is the computed one *)
Lemma attr_cached_core_correct orc c t name :
  attr_inv (ach_m c) ->
  attr_inv (ach_m (fst (attr_cached_core orc c t name))) /\
  snd (attr_cached_core orc c t name) = attr_compute_core t name.
Proof.
  intro Hinv. unfold attr_cached_core.
  destruct (attr_m_get (t, name) (ach_m c)) as [e|] eqn:Hget; simpl.
  - apply attr_m_get_in in Hget. pose proof (Hinv _ _ Hget) as He. simpl in He. split.
    + apply attr_inv_set; [exact Hinv|exact He].
    + exact He.
  - split; [|reflexivity].
    apply attr_inv_set; [|reflexivity].
    destruct (attr_cache_full c); [apply attr_inv_evict|]; exact Hinv.
Qed.

Lemma attr_lookup_correct orc c a v name :
  attr_inv (ach_m c) ->
  attr_inv (ach_m (fst (attr_lookup orc c a v name))) /\
  snd (attr_lookup orc c a v name) = attr_resolve a v name.
Proof.
  intro Hinv. destruct a; simpl; [|split; [exact Hinv|reflexivity]].
  unfold attr_get_attribute.
  assert (Hstruct : forall v0, v0 = v ->
    attr_inv (ach_m (fst (match attr_struct_of v0 with
                          | Some (t, fv) => let (c', core) := attr_cached_core orc c t name in (c', attr_apply core t fv)
                          | None => (c, AVNil) end))) /\
    snd (match attr_struct_of v0 with
         | Some (t, fv) => let (c', core) := attr_cached_core orc c t name in (c', attr_apply core t fv)
         | None => (c, AVNil) end) =
    match attr_struct_of v0 with
    | Some (t, fv) => attr_apply (attr_compute_core t name) t fv
    | None => AVNil end).
  { intros v0 _. destruct (attr_struct_of v0) as [[t fv]|]; [|split; [exact Hinv|reflexivity]].
    pose proof (attr_cached_core_correct orc c t name Hinv) as [H1 H2].
    destruct (attr_cached_core orc c t name) as [c' core]. simpl in *. subst core. split; [exact H1|reflexivity]. }
  destruct v as [| | | | | |g kv]; try (apply Hstruct; reflexivity).
  - split; [exact Hinv|reflexivity].
  - destruct (g || attr_typed_maps_by_key); split; try exact Hinv; reflexivity.
Qed.

Lemma attr_run_inv orc hist c : attr_inv (ach_m c) -> attr_inv (ach_m (attr_run orc hist c)).
Proof.
  revert c; induction hist as [|s hist IH]; intros c Hinv; simpl; [exact Hinv|].
  apply IH. apply attr_lookup_correct. exact Hinv.
Qed.

Lemma C20_cache_transparent_proof :
  forall (orc : attr_oracle) (hist : list attr_step) (a : attr_access) (v : attr_val) (name : bytes),
    snd (attr_lookup orc (attr_run orc hist attr_cache_empty) a v name) = attr_resolve a v name.
Proof.
  intros orc hist a v name. apply attr_lookup_correct. apply attr_run_inv. apply attr_inv_nil.
Qed.

(* the same for every answer given along the way *)
Lemma attr_run_answers_correct orc hist c :
  attr_inv (ach_m c) ->
  attr_run_answers orc hist c = map (fun s => attr_resolve (fst (fst s)) (snd (fst s)) (snd s)) hist.
Proof.
  revert c; induction hist as [|s hist IH]; intros c Hinv; simpl; [reflexivity|].
  pose proof (attr_lookup_correct orc c (fst (fst s)) (snd (fst s)) (snd s) Hinv) as [H1 H2].
  rewrite H2. f_equal. apply IH. exact H1.
Qed.

Lemma C20_history_answers_proof :
  forall (orc : attr_oracle) (hist : list attr_step),
    attr_run_answers orc hist attr_cache_empty =
    map (fun s => attr_resolve (fst (fst s)) (snd (fst s)) (snd s)) hist.
Proof. intros. apply attr_run_answers_correct. apply attr_inv_nil. Qed.

(* ================================================================== C. resolution = specification *)

(* ---- C1. walking an index path *)
Lemma attr_field_by_index_false (p : attr_path) (v : attr_val) :
  attr_field_by_index false p v = attr_spec_value_at p v.
Proof.
  revert v; induction p as [|i p IH]; intro v; simpl; [reflexivity|].
  destruct (match v with AVPtr u => Some u | AVNilPtr => None | _ => Some v end) as [[| | |t fv| | |]|]; try reflexivity.
  destruct (nth_error fv i) as [f|]; [apply IH|reflexivity].
Qed.

Lemma attr_field_by_index_struct (p : attr_path) t fv :
  attr_field_by_index true p (AVStruct t fv) = attr_spec_value_at p (AVStruct t fv).
Proof.
  destruct p as [|i p]; simpl; [reflexivity|].
  destruct (nth_error fv i) as [f|]; [apply attr_field_by_index_false|reflexivity].
Qed.

(* ---- C2. the breadth-first scan finds what the selector rule selects *)

(* queueing without looking at the name *)
Fixpoint attr_next_all (pre : attr_path) (i : nat) (fs : attr_flds) : list attr_scan :=
  match fs with
  | AFNil => []
  | AFCons _ _ k r =>
      (match k with
       | AKEmbed _ t => [(pre ++ [i], attr_sty_fields t)]
       | AKPlain => []
       end) ++ attr_next_all pre (S i) r
  end.

Definition attr_scans_next_all (cur : list attr_scan) : list attr_scan :=
  flat_map (fun s => attr_next_all (fst s) 0 (snd s)) cur.

Fixpoint attr_iter_all (d : nat) (cur : list attr_scan) : list attr_scan :=
  match d with
  | O => cur
  | S d' => attr_iter_all d' (attr_scans_next_all cur)
  end.

Lemma attr_level_next_no_match name pre i fs :
  attr_level_matches name pre i fs = [] -> attr_level_next name pre i fs = attr_next_all pre i fs.
Proof.
  revert i; induction fs as [|n e k r IH]; intro i; simpl; [reflexivity|].
  intro H. apply app_eq_nil in H. destruct H as [H1 H2].
  destruct (bytes_eqb n name); [discriminate|].
  rewrite (IH (S i) H2). reflexivity.
Qed.

Lemma attr_scans_next_no_match name cur :
  attr_scans_matches name cur = [] -> attr_scans_next name cur = attr_scans_next_all cur.
Proof.
  induction cur as [|s cur IH]; simpl; [reflexivity|].
  intro H. apply app_eq_nil in H. destruct H as [H1 H2].
  unfold attr_scans_next, attr_scans_next_all in *. simpl.
  rewrite (attr_level_next_no_match _ _ _ _ H1). f_equal. apply IH. exact H2.
Qed.

Lemma attr_scans_next_all_app a b :
  attr_scans_next_all (a ++ b) = attr_scans_next_all a ++ attr_scans_next_all b.
Proof. unfold attr_scans_next_all. apply flat_map_app. Qed.

Lemma attr_scans_matches_app name a b :
  attr_scans_matches name (a ++ b) = attr_scans_matches name a ++ attr_scans_matches name b.
Proof. unfold attr_scans_matches. apply flat_map_app. Qed.

Lemma attr_iter_all_app d a b : attr_iter_all d (a ++ b) = attr_iter_all d a ++ attr_iter_all d b.
Proof.
  revert a b; induction d as [|d IH]; intros a b; simpl; [reflexivity|].
  rewrite attr_scans_next_all_app. apply IH.
Qed.

Lemma attr_iter_all_nil d : attr_iter_all d [] = [].
Proof. induction d as [|d IH]; simpl; [reflexivity|exact IH]. Qed.

Lemma attr_iter_all_S d cur : attr_iter_all (S d) cur = attr_scans_next_all (attr_iter_all d cur).
Proof.
  revert cur; induction d as [|d IH]; intro cur; [reflexivity|].
  change (attr_iter_all (S (S d)) cur) with (attr_iter_all (S d) (attr_scans_next_all cur)).
  rewrite IH. reflexivity.
Qed.

Definition attr_pre (pre : attr_path) (pe : attr_path * bool) : attr_path * bool := (pre ++ fst pe, snd pe).

Lemma attr_level_matches_top name pre i fs :
  attr_level_matches name pre i fs = map (attr_pre pre) (attr_spec_top name i fs).
Proof.
  revert i; induction fs as [|n e k r IH]; intro i; simpl; [reflexivity|].
  rewrite map_app, IH. destruct (bytes_eqb n name); reflexivity.
Qed.

Lemma attr_matches_iter name d : forall pre fs,
  attr_scans_matches name (attr_iter_all d [(pre, fs)]) = map (attr_pre pre) (attr_spec_at d name fs).
Proof.
  induction d as [|d IH]; intros pre fs.
  - simpl. unfold attr_scans_matches. simpl. rewrite app_nil_r. apply attr_level_matches_top.
  - change (attr_iter_all (S d) [(pre, fs)]) with (attr_iter_all d (attr_scans_next_all [(pre, fs)])).
    unfold attr_scans_next_all. simpl flat_map. rewrite app_nil_r.
    change (attr_spec_at (S d) name fs) with (attr_spec_over_embedded (attr_spec_at d name) 0 fs).
    generalize 0 as i.
    induction fs as [|n e k r IHr]; intro i; simpl.
    + rewrite attr_iter_all_nil. reflexivity.
    + rewrite attr_iter_all_app, attr_scans_matches_app, map_app, IHr. f_equal.
      destruct k as [|p t].
      * rewrite attr_iter_all_nil. reflexivity.
      * rewrite IH, map_map. apply map_ext. intros [q x]. unfold attr_pre. simpl.
        rewrite <- app_assoc. reflexivity.
Qed.

Lemma attr_bfs_is_select name fs : forall k d,
  attr_bfs k name (attr_iter_all d [([], fs)]) = attr_spec_select k d name fs.
Proof.
  induction k as [|k IH]; intro d; cbn [attr_bfs attr_spec_select]; [reflexivity|].
  pose proof (attr_matches_iter name d [] fs) as Hm.
  assert (Hid : map (attr_pre []) (attr_spec_at d name fs) = attr_spec_at d name fs).
  { rewrite <- (map_id (attr_spec_at d name fs)) at 2. apply map_ext. intros [q x]. reflexivity. }
  rewrite Hid in Hm. unfold attr_path, attr_scan in *. rewrite Hm.
  destruct (attr_spec_at d name fs) as [|m [|m' ms]] eqn:Hat; try reflexivity.
  rewrite (attr_scans_next_no_match _ _ Hm), <- attr_iter_all_S. apply IH.
Qed.

Lemma attr_field_by_name_is_promoted t name : attr_field_by_name t name = attr_spec_promoted t name.
Proof. unfold attr_field_by_name, attr_spec_promoted. apply (attr_bfs_is_select name (attr_sty_fields t) _ 0). Qed.

(* ---- C3. shape of the enumerated fields: paths are non-empty and carry the flag of their last field *)
Lemma attr_spec_top_in name i0 fs p e :
  In (p, e) (attr_spec_top name i0 fs) ->
  exists j k, p = [i0 + j] /\ attr_nth_fld j fs = Some (e, k).
Proof.
  revert i0; induction fs as [|n x k r IH]; intro i0; simpl; [intros []|].
  intro H. apply in_app_or in H. destruct H as [H|H].
  - destruct (bytes_eqb n name); [|destruct H]. destruct H as [H|[]]. inversion H; subst.
    exists 0, k. rewrite Nat.add_0_r. split; reflexivity.
  - apply IH in H. destruct H as [j [k' [Hp Hn]]]. exists (S j), k'.
    split; [rewrite Hp; f_equal; lia|exact Hn].
Qed.

Lemma attr_spec_over_in f i0 fs p e :
  In (p, e) (attr_spec_over_embedded f i0 fs) ->
  exists j x ptr t q, p = (i0 + j) :: q /\ attr_nth_fld j fs = Some (x, AKEmbed ptr t) /\
                      In (q, e) (f (attr_sty_fields t)).
Proof.
  revert i0; induction fs as [|n x k r IH]; intro i0; simpl; [intros []|].
  intro H. apply in_app_or in H. destruct H as [H|H].
  - destruct k as [|ptr t]; [destruct H|]. apply in_map_iff in H. destruct H as [[q e'] [Heq Hin]].
    simpl in Heq. inversion Heq; subst. exists 0, x, ptr, t, q. rewrite Nat.add_0_r.
    split; [reflexivity|split; [reflexivity|exact Hin]].
  - apply IH in H. destruct H as [j [x' [ptr [t [q [Hp [Hn Hq]]]]]]]. exists (S j), x', ptr, t, q.
    split; [rewrite Hp; f_equal; lia|split; [exact Hn|exact Hq]].
Qed.

Lemma attr_spec_at_nonempty name d fs p e : In (p, e) (attr_spec_at d name fs) -> p <> [].
Proof.
  destruct d as [|d]; simpl; intro H.
  - apply attr_spec_top_in in H. destruct H as [j [k [Hp _]]]. rewrite Hp. discriminate.
  - apply attr_spec_over_in in H. destruct H as [j [x [ptr [t [q [Hp _]]]]]]. rewrite Hp. discriminate.
Qed.

Lemma attr_spec_at_exported name d : forall fs p e,
  In (p, e) (attr_spec_at d name fs) -> attr_path_exported p fs = e.
Proof.
  induction d as [|d IH]; intros fs p e H.
  - simpl in H. apply attr_spec_top_in in H. destruct H as [j [k [Hp Hn]]]. subst p. simpl. rewrite Hn. reflexivity.
  - pose proof H as H0. simpl in H. apply attr_spec_over_in in H.
    destruct H as [j [x [ptr [t [q [Hp [Hn Hq]]]]]]]. subst p. simpl (0 + j).
    pose proof (attr_spec_at_nonempty _ _ _ _ _ Hq) as Hne.
    destruct q as [|i q]; [contradiction|].
    change (attr_path_exported (j :: i :: q) fs) with
      (match attr_nth_fld j fs with
       | None => false
       | Some (e0, k) => match k with
                         | AKEmbed _ t0 => attr_path_exported (i :: q) (attr_sty_fields t0)
                         | AKPlain => false
                         end
       end).
    rewrite Hn. apply IH. exact Hq.
Qed.

Lemma attr_spec_select_in name fs : forall k d p e,
  attr_spec_select k d name fs = Some (p, e) -> exists d', In (p, e) (attr_spec_at d' name fs).
Proof.
  induction k as [|k IH]; intros d p e; simpl; [discriminate|].
  destruct (attr_spec_at d name fs) as [|m [|m' ms]] eqn:Hat.
  - apply IH.
  - intro H. inversion H; subst. exists d. rewrite Hat. left. reflexivity.
  - discriminate.
Qed.

(* nothing lies deeper than the depth of the type: trying depths 0 .. depth loses nothing *)
Lemma attr_spec_at_beyond_depth name : forall d fs, attr_flds_depth fs < d -> attr_spec_at d name fs = [].
Proof.
  induction d as [|d IH]; intros fs Hlt; [lia|].
  simpl. generalize 0 as i. induction fs as [|n e k r IHr]; intro i; simpl; [reflexivity|].
  cbn [attr_flds_depth] in Hlt. apply Nat.max_lub_lt_iff in Hlt. destruct Hlt as [Hk Hr].
  rewrite (IHr Hr). rewrite app_nil_r.
  destruct k as [|ptr t]; [reflexivity|].
  rewrite IH; [reflexivity|]. destruct t as [tid fs' ms].
  cbn [attr_fk_depth attr_sty_depth attr_sty_fields] in *. lia.
Qed.

(* ---- the field alternative *)
Lemma attr_apply_field_spec t fv name :
  attr_apply_field (attr_compute_core t name) t fv = attr_spec_field t fv name.
Proof.
  unfold attr_apply_field, attr_compute_core, attr_spec_field.
  cbn [acr_field_index acr_field_path].
  rewrite attr_field_by_name_is_promoted.
  destruct (attr_spec_promoted t name) as [[p e]|] eqn:Hp; [|reflexivity].
  unfold attr_spec_promoted in Hp. apply attr_spec_select_in in Hp. destruct Hp as [d Hin].
  pose proof (attr_spec_at_nonempty _ _ _ _ _ Hin) as Hne.
  pose proof (attr_spec_at_exported _ _ _ _ _ Hin) as Hex.
  destruct p as [|i q]; [contradiction|].
  cbn [fst snd].
  replace (0 <=? Z.of_nat i)%Z with true by (symmetry; apply Z.leb_le; lia).
  rewrite attr_field_by_index_struct, Hex.
  destruct e; destruct (attr_spec_value_at (i :: q) (AVStruct t fv)); reflexivity.
Qed.

(* ---- C4. the method alternative *)
Definition attr_named (name : bytes) (m : attr_meth) : bool := bytes_eqb (am_name m) name.

Lemma attr_find_meth_some name : forall ms i j m,
  attr_find_meth name i ms = Some (j, m) ->
  (exists d, j = i + d /\ nth_error ms d = Some m) /\ find (attr_named name) ms = Some m.
Proof.
  induction ms as [|x r IH]; intros i j m; simpl; [discriminate|].
  unfold attr_named at 1. destruct (bytes_eqb (am_name x) name).
  - intro H. inversion H; subst. split; [exists 0; split; [lia|reflexivity]|reflexivity].
  - intro H. apply IH in H. destruct H as [[d [Hj Hn]] Hf]. split; [|exact Hf].
    exists (S d). split; [lia|exact Hn].
Qed.

Lemma attr_find_meth_none name : forall ms i,
  attr_find_meth name i ms = None -> find (attr_named name) ms = None.
Proof.
  induction ms as [|x r IH]; intros i; simpl; [reflexivity|].
  unfold attr_named at 1. destruct (bytes_eqb (am_name x) name); [discriminate|apply IH].
Qed.

Lemma attr_find_value_meth_unique name : forall ms m,
  NoDup (map am_name ms) ->
  find (attr_named name) (attr_value_meths ms) = Some m -> find (attr_named name) ms = Some m.
Proof.
  induction ms as [|x r IH]; intros m Hnd; simpl; [discriminate|].
  inversion Hnd as [|a l Hnotin Hnd']; subst.
  destruct (attr_named name x) eqn:Hx.
  - destruct (am_ptr x); simpl.
    + intro H. exfalso. apply find_some in H. destruct H as [Hin Hm].
      unfold attr_value_meths in Hin. apply filter_In in Hin. destruct Hin as [Hin _].
      apply Hnotin. unfold attr_named in Hx, Hm. apply bytes_eqb_eq in Hx. apply bytes_eqb_eq in Hm.
      rewrite Hx, <- Hm. apply in_map. exact Hin.
    + rewrite Hx. intro H. exact H.
  - destruct (am_ptr x); simpl.
    + apply IH. exact Hnd'.
    + rewrite Hx. apply IH. exact Hnd'.
Qed.

Lemma attr_apply_method_spec t fv name :
  NoDup (map am_name (attr_sty_meths t)) ->
  attr_apply_method (attr_compute_core t name) t fv =
  match attr_spec_method t fv name with Some x => x | None => AVNil end.
Proof.
  intro Hnd. unfold attr_apply_method, attr_compute_core, attr_spec_method.
  cbn [acr_is_method acr_method_index acr_ptr_method].
  fold (attr_named name).
  set (ms := attr_sty_meths t) in *.
  destruct (attr_find_meth name 0 (attr_value_meths ms)) as [[i m]|] eqn:Hv.
  - apply attr_find_meth_some in Hv. destruct Hv as [[d [Hi Hn]] Hf]. simpl in Hi. subst i.
    apply (attr_find_value_meth_unique name ms m Hnd) in Hf. rewrite Hf.
    destruct (Nat.eqb (am_nargs m) 0) eqn:Hz.
    + cbn [fst snd]. replace (0 <=? Z.of_nat d)%Z with true by (symmetry; apply Z.leb_le; lia).
      cbn [andb]. rewrite Nat2Z.id, Hn. reflexivity.
    + destruct (attr_find_meth name 0 ms) as [[j m']|] eqn:Hp.
      * apply attr_find_meth_some in Hp. destruct Hp as [_ Hf']. rewrite Hf in Hf'. inversion Hf'; subst m'.
        rewrite Hz. reflexivity.
      * reflexivity.
  - destruct (attr_find_meth name 0 ms) as [[j m]|] eqn:Hp.
    + apply attr_find_meth_some in Hp. destruct Hp as [[d [Hj Hn]] Hf]. simpl in Hj. subst j. rewrite Hf.
      destruct (Nat.eqb (am_nargs m) 0) eqn:Hz; [|reflexivity].
      cbn [fst snd]. replace (0 <=? Z.of_nat d)%Z with true by (symmetry; apply Z.leb_le; lia).
      cbn [andb]. rewrite Nat2Z.id, Hn. reflexivity.
    + apply attr_find_meth_none in Hp. rewrite Hp. reflexivity.
Qed.

(* ---- the theorem: on every input outside the typed-map-dot class the pinned code computes the spec *)
Lemma C20_resolve_is_spec_proof :
  forall (a : attr_access) (v : attr_val) (name : bytes),
    attr_typed_map_dot a v = false \/ attr_typed_maps_by_key = true -> attr_meths_wf v ->
    attr_resolve a v name = attr_spec_lookup a v name.
Proof.
  intros a v name Hcls Hwf.
  assert (Hs : forall t fv, attr_struct_of v = Some (t, fv) ->
             attr_apply (attr_compute_core t name) t fv =
             match attr_spec_field t fv name with
             | Some x => x
             | None => match attr_spec_method t fv name with Some x => x | None => AVNil end
             end).
  { intros t fv Hsv. unfold attr_apply. rewrite attr_apply_field_spec.
    destruct (attr_spec_field t fv name); [reflexivity|].
    apply attr_apply_method_spec. exact (Hwf t fv Hsv). }
  destruct a.
  - destruct v as [| | |t fv|u| |g kv]; simpl; try reflexivity.
    + apply Hs. reflexivity.
    + destruct u; try reflexivity. apply Hs. reflexivity.
    + destruct g; [reflexivity|]. destruct Hcls as [Hcls|Hcls]; [discriminate|].
      cbn [orb]. rewrite Hcls. reflexivity.
  - destruct v; reflexivity.
Qed.

(* while getAttribute does not hand typed maps to getItem, the excluded class is a real difference *)
Lemma C20_resolve_refuted_typed_map_proof :
  attr_typed_maps_by_key = false ->
  exists (v : attr_val) (name : bytes),
    attr_typed_map_dot ADot v = true /\
    attr_resolve ADot v name = AVNil /\ attr_spec_lookup ADot v name = AVStr b#"v" /\
    attr_resolve AIndex v name = AVStr b#"v".
Proof.
  intro Hflag.
  exists (AVMap false [(b#"k", AVStr b#"v")]), b#"k".
  split; [reflexivity|]. split; [|split; reflexivity].
  unfold attr_resolve. cbn [orb]. rewrite Hflag. reflexivity.
Qed.

(* ================================================================== D. size accounting *)

(* what the translator read in render.go, as one computed side condition: the constants are sane and
   the accounting statements are where the model assumes them *)
Definition attr_accounting_ok : bool :=
  attr_consts_shape_ok && attr_key_is_type_and_name &&
  attr_evict_min_one && attr_evict_deletes && attr_evict_decrements_size &&
  attr_evict_when_size_ge_max && attr_insert_increments_size &&
  (0 <? attr_max_size)%Z && Nat.leb 1 attr_num_to_evict && (Z.of_nat attr_num_to_evict <=? attr_max_size)%Z.

Lemma C20_cache_consts_proof : attr_accounting_ok = true.
Proof. vm_compute. reflexivity. Qed.

Lemma attr_flag_deletes : attr_evict_deletes = true. Proof. reflexivity. Qed.
Lemma attr_flag_decrements : attr_evict_decrements_size = true. Proof. reflexivity. Qed.
Lemma attr_flag_ge : attr_evict_when_size_ge_max = true. Proof. reflexivity. Qed.
Lemma attr_flag_increments : attr_insert_increments_size = true. Proof. reflexivity. Qed.
Lemma attr_max_size_pos : (0 < attr_max_size)%Z. Proof. reflexivity. Qed.
Lemma attr_num_to_evict_pos : 1 <= attr_num_to_evict. Proof. apply Nat.leb_le. vm_compute. reflexivity. Qed.

Definition attr_keys (m : list (attr_key * attr_entry)) : list attr_key := map fst m.

(* sort.Slice rearranges the collected entries: every key of the map exactly once *)
Definition attr_oracle_sorts (orc : attr_oracle) : Prop :=
  forall m, Permutation (orc m) (attr_keys m).

Lemma attr_keys_del_in k k' m : In k' (attr_keys (attr_m_del k m)) <-> In k' (attr_keys m) /\ k' <> k.
Proof.
  unfold attr_keys, attr_m_del. rewrite !in_map_iff. split.
  - intros [[k0 e0] [Hk Hin]]. simpl in Hk. subst k0. apply filter_In in Hin. destruct Hin as [Hin Hneq].
    simpl in Hneq. apply negb_true_iff in Hneq. apply attr_key_eqb_neq in Hneq.
    split; [exists (k', e0); split; [reflexivity|exact Hin]|exact Hneq].
  - intros [[[k0 e0] [Hk Hin]] Hneq]. simpl in Hk. subst k0. exists (k', e0). split; [reflexivity|].
    apply filter_In. split; [exact Hin|]. simpl. apply negb_true_iff. apply attr_key_eqb_neq. exact Hneq.
Qed.

Lemma attr_m_del_notin k m : ~ In k (attr_keys m) -> attr_m_del k m = m.
Proof.
  induction m as [|[k0 e0] r IH]; simpl; intro Hn; [reflexivity|].
  destruct (attr_key_eqb k0 k) eqn:E.
  - exfalso. apply Hn. left. apply attr_key_eqb_eq in E. exact E.
  - simpl. f_equal. apply IH. intro H. apply Hn. right. exact H.
Qed.

Lemma attr_keys_del_nodup k m : NoDup (attr_keys m) -> NoDup (attr_keys (attr_m_del k m)).
Proof.
  induction m as [|[k0 e0] r IH]; simpl; intro Hnd; [constructor|].
  inversion Hnd as [|a l Hnotin Hnd']; subst.
  destruct (negb (attr_key_eqb k0 k)); simpl.
  - constructor; [|apply IH; exact Hnd'].
    intro H. apply attr_keys_del_in in H. apply Hnotin. exact (proj1 H).
  - apply IH. exact Hnd'.
Qed.

Lemma attr_m_del_length k m :
  NoDup (attr_keys m) -> In k (attr_keys m) -> S (length (attr_m_del k m)) = length m.
Proof.
  induction m as [|[k0 e0] r IH]; simpl; intros Hnd Hin; [destruct Hin|].
  inversion Hnd as [|a l Hnotin Hnd']; subst.
  destruct (attr_key_eqb k0 k) eqn:E; simpl.
  - apply attr_key_eqb_eq in E. subst k0. fold (attr_m_del k r). rewrite (attr_m_del_notin k r Hnotin). reflexivity.
  - f_equal. apply IH; [exact Hnd'|]. destruct Hin as [Hin|Hin]; [|exact Hin].
    apply attr_key_eqb_neq in E. contradiction.
Qed.

Lemma attr_m_get_none k m : attr_m_get k m = None -> ~ In k (attr_keys m).
Proof.
  induction m as [|[k0 e0] r IH]; simpl; intros Hg Hin; [exact Hin|].
  destruct (attr_key_eqb k0 k) eqn:E; [discriminate|].
  destruct Hin as [Hin|Hin]; [apply attr_key_eqb_neq in E; contradiction|exact (IH Hg Hin)].
Qed.

(* the removal loop: distinct keys that are in the map *)
Lemma attr_evict_fold_size : forall vs c,
  NoDup vs -> incl vs (attr_keys (ach_m c)) -> NoDup (attr_keys (ach_m c)) ->
  ach_size c = Z.of_nat (length (ach_m c)) ->
  NoDup (attr_keys (ach_m (fold_left attr_evict_one vs c))) /\
  ach_size (fold_left attr_evict_one vs c) = Z.of_nat (length (ach_m (fold_left attr_evict_one vs c))) /\
  length (ach_m (fold_left attr_evict_one vs c)) + length vs = length (ach_m c) /\
  incl (attr_keys (ach_m (fold_left attr_evict_one vs c))) (attr_keys (ach_m c)).
Proof.
  induction vs as [|v vs IH]; intros c Hvs Hincl Hnd Hsz; simpl.
  - repeat split; try assumption; [lia|apply incl_refl].
  - inversion Hvs as [|a l Hvnot Hvs']; subst.
    assert (Hvin : In v (attr_keys (ach_m c))) by (apply Hincl; left; reflexivity).
    assert (Hm1 : ach_m (attr_evict_one c v) = attr_m_del v (ach_m c))
      by (unfold attr_evict_one; cbn [ach_m]; rewrite attr_flag_deletes; reflexivity).
    assert (Hs1 : ach_size (attr_evict_one c v) = (ach_size c - 1)%Z)
      by (unfold attr_evict_one; cbn [ach_size]; rewrite attr_flag_decrements; reflexivity).
    pose proof (attr_m_del_length v (ach_m c) Hnd Hvin) as Hlen.
    destruct (IH (attr_evict_one c v)) as [H1 [H2 [H3 H4]]].
    + exact Hvs'.
    + intros k Hk. rewrite Hm1. apply attr_keys_del_in. split; [apply Hincl; right; exact Hk|].
      intro E. subst k. contradiction.
    + rewrite Hm1. apply attr_keys_del_nodup. exact Hnd.
    + rewrite Hs1, Hm1, Hsz. lia.
    + split; [exact H1|]. split; [exact H2|]. split.
      * rewrite Hm1 in H3. lia.
      * intros k Hk. apply H4 in Hk. rewrite Hm1 in Hk. apply attr_keys_del_in in Hk. exact (proj1 Hk).
Qed.

Lemma attr_firstn_in {A} (n : nat) (l : list A) x : In x (firstn n l) -> In x l.
Proof. intro H. rewrite <- (firstn_skipn n l). apply in_or_app. left. exact H. Qed.

Lemma attr_firstn_nodup {A} (n : nat) (l : list A) : NoDup l -> NoDup (firstn n l).
Proof.
  revert l; induction n as [|n IH]; intros [|x l] Hnd; simpl; try constructor.
  - inversion Hnd; subst. intro H. apply attr_firstn_in in H. contradiction.
  - inversion Hnd; subst. apply IH. assumption.
Qed.

Definition attr_size_inv (c : attr_cache) : Prop :=
  NoDup (attr_keys (ach_m c)) /\
  ach_size c = Z.of_nat (length (ach_m c)) /\
  (Z.of_nat (length (ach_m c)) <= attr_max_size)%Z.

Lemma attr_evict_size orc c :
  attr_oracle_sorts orc -> NoDup (attr_keys (ach_m c)) -> ach_size c = Z.of_nat (length (ach_m c)) ->
  NoDup (attr_keys (ach_m (attr_evict orc c))) /\
  ach_size (attr_evict orc c) = Z.of_nat (length (ach_m (attr_evict orc c))) /\
  length (ach_m (attr_evict orc c)) + Nat.min attr_num_to_evict (length (ach_m c)) = length (ach_m c) /\
  incl (attr_keys (ach_m (attr_evict orc c))) (attr_keys (ach_m c)).
Proof.
  intros Horc Hnd Hsz. unfold attr_evict.
  pose proof (Horc (ach_m c)) as Hperm.
  assert (Hnd' : NoDup (orc (ach_m c))) by (apply (Permutation_NoDup (Permutation_sym Hperm)); exact Hnd).
  destruct (attr_evict_fold_size (firstn attr_num_to_evict (orc (ach_m c))) c) as [H1 [H2 [H3 H4]]].
  - apply attr_firstn_nodup. exact Hnd'.
  - intros k Hk. apply attr_firstn_in in Hk. apply (Permutation_in _ Hperm). exact Hk.
  - exact Hnd.
  - exact Hsz.
  - split; [exact H1|]. split; [exact H2|]. split; [|exact H4].
    rewrite firstn_length in H3. rewrite (Permutation_length Hperm) in H3.
    unfold attr_keys in H3. rewrite map_length in H3. exact H3.
Qed.

Lemma attr_cached_core_size orc c t name :
  attr_oracle_sorts orc -> attr_size_inv c -> attr_size_inv (fst (attr_cached_core orc c t name)).
Proof.
  intros Horc [Hnd [Hsz Hle]]. unfold attr_cached_core.
  destruct (attr_m_get (t, name) (ach_m c)) as [e|] eqn:Hget; cbn [fst].
  - apply attr_m_get_in in Hget.
    assert (Hin : In (t, name) (attr_keys (ach_m c))) by (apply (in_map fst) in Hget; exact Hget).
    pose proof (attr_m_del_length _ _ Hnd Hin) as Hlen.
    unfold attr_size_inv, attr_m_set. cbn [ach_m ach_size]. simpl length. simpl attr_keys. split.
    + constructor; [|apply attr_keys_del_nodup; exact Hnd].
      intro H. apply attr_keys_del_in in H. destruct H as [_ H]. apply H. reflexivity.
    + rewrite Hlen. split; [exact Hsz|exact Hle].
  - apply attr_m_get_none in Hget.
    unfold attr_cache_full. rewrite attr_flag_ge, attr_flag_increments.
    set (c1 := if (attr_max_size <=? ach_size c)%Z then attr_evict orc c else c).
    assert (H1 : NoDup (attr_keys (ach_m c1)) /\ ach_size c1 = Z.of_nat (length (ach_m c1)) /\
                 (Z.of_nat (length (ach_m c1)) + 1 <= attr_max_size)%Z /\
                 incl (attr_keys (ach_m c1)) (attr_keys (ach_m c))).
    { unfold c1. destruct (attr_max_size <=? ach_size c)%Z eqn:Hfull.
      - apply Z.leb_le in Hfull.
        destruct (attr_evict_size orc c Horc Hnd Hsz) as [E1 [E2 [E3 E4]]].
        split; [exact E1|]. split; [exact E2|]. split; [|exact E4].
        pose proof attr_num_to_evict_pos. pose proof attr_max_size_pos. lia.
      - apply Z.leb_gt in Hfull. split; [exact Hnd|]. split; [exact Hsz|]. split; [lia|apply incl_refl]. }
    destruct H1 as [Hnd1 [Hsz1 [Hle1 Hincl1]]].
    assert (Hnot1 : ~ In (t, name) (attr_keys (ach_m c1))) by (intro H; apply Hget; apply Hincl1; exact H).
    unfold attr_size_inv, attr_m_set. cbn [ach_m ach_size]. rewrite (attr_m_del_notin _ _ Hnot1).
    simpl length. simpl attr_keys. split; [constructor; assumption|]. split; lia.
Qed.

Lemma attr_lookup_size orc c a v name :
  attr_oracle_sorts orc -> attr_size_inv c -> attr_size_inv (fst (attr_lookup orc c a v name)).
Proof.
  intros Horc Hinv. destruct a; simpl; [|exact Hinv].
  unfold attr_get_attribute.
  assert (Hstruct : attr_size_inv (fst (match attr_struct_of v with
            | Some (t, fv) => let (c', core) := attr_cached_core orc c t name in (c', attr_apply core t fv)
            | None => (c, AVNil) end))).
  { destruct (attr_struct_of v) as [[t fv]|]; [|exact Hinv].
    pose proof (attr_cached_core_size orc c t name Horc Hinv) as H.
    destruct (attr_cached_core orc c t name) as [c' core]. exact H. }
  destruct v as [| | | | | |g kv]; try exact Hstruct; try exact Hinv.
  destruct (g || attr_typed_maps_by_key); exact Hinv.
Qed.

Lemma attr_run_size orc hist c :
  attr_oracle_sorts orc -> attr_size_inv c -> attr_size_inv (attr_run orc hist c).
Proof.
  intro Horc. revert c; induction hist as [|s hist IH]; intros c Hinv; simpl; [exact Hinv|].
  apply IH. apply attr_lookup_size; assumption.
Qed.

Lemma C20_cache_bounded_proof :
  forall (orc : attr_oracle), attr_oracle_sorts orc ->
  forall (hist : list attr_step),
    let c := attr_run orc hist attr_cache_empty in
    ach_size c = Z.of_nat (attr_cache_len c) /\ (Z.of_nat (attr_cache_len c) <= attr_max_size)%Z.
Proof.
  intros orc Horc hist c.
  assert (H : attr_size_inv c).
  { apply attr_run_size; [exact Horc|]. unfold attr_size_inv, attr_cache_empty. simpl.
    split; [constructor|]. split; [reflexivity|]. pose proof attr_max_size_pos. lia. }
  destruct H as [_ [H1 H2]]. split; [exact H1|exact H2].
Qed.
