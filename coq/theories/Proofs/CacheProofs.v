(* C15: proofs about Model/Cache.v against Spec/CacheSpec.v. *)
From Twig Require Import Base.Bytes Model.Cache Spec.CacheSpec.

(* ------------------------------------------------------------------ association lists *)
Lemma cache_lookup_set_eq {A} (l : list (N * A)) k v : cache_lookup (cache_set l k v) k = Some v.
Proof. unfold cache_set; simpl. rewrite N.eqb_refl. reflexivity. Qed.

Lemma cache_lookup_set_neq {A} (l : list (N * A)) k k' v :
  k <> k' -> cache_lookup (cache_set l k v) k' = cache_lookup l k'.
Proof.
  intro H. unfold cache_set; simpl.
  destruct (N.eqb k k') eqn:E; [apply N.eqb_eq in E; contradiction|reflexivity].
Qed.

Lemma cache_lookup_del_eq {A} (l : list (N * A)) k : cache_lookup (cache_del l k) k = None.
Proof.
  induction l as [|[k' v] r IH]; simpl; [reflexivity|].
  destruct (N.eqb k' k) eqn:E; [exact IH|]. simpl. rewrite E. exact IH.
Qed.

Lemma cache_lookup_del_neq {A} (l : list (N * A)) k k' :
  k <> k' -> cache_lookup (cache_del l k) k' = cache_lookup l k'.
Proof.
  intro H. induction l as [|[k0 v] r IH]; simpl; [reflexivity|].
  destruct (N.eqb k0 k) eqn:E.
  - apply N.eqb_eq in E. subst k0.
    destruct (N.eqb k k') eqn:E2; [apply N.eqb_eq in E2; contradiction|exact IH].
  - simpl. destruct (N.eqb k0 k'); [reflexivity|exact IH].
Qed.

#[local] Opaque cache_set.

(* ------------------------------------------------------------------ the loader loop *)
Lemma cache_try_loaders_spec ls n :
  cache_try_loaders ls n =
  (cache_first_having ls n,
   match cache_first_having ls n with
   | Some (i, _, _) => cache_unit_reads (length ls) i
   | None => repeat O (length ls)
   end).
Proof.
  induction ls as [|l r IH]; simpl; [reflexivity|].
  destruct (cache_lookup (cl_files l) n) as [f|]; [reflexivity|].
  rewrite IH. destruct (cache_first_having r n) as [[[i l'] f]|]; reflexivity.
Qed.

(* registration order, first that has the name *)
Lemma cache_first_having_some ls n : forall i l f,
  cache_first_having ls n = Some (i, l, f) <-> cache_first_is ls n i l f.
Proof.
  unfold cache_first_is.
  induction ls as [|l0 r IH]; intros i l f; simpl.
  - split; [discriminate|]. intros [Hn _]. destruct i; discriminate.
  - destruct (cache_lookup (cl_files l0) n) as [f0|] eqn:E.
    + split.
      * intro H. inversion H; subst. simpl. split; [reflexivity|]. split; [exact E|].
        intros j l' Hj. lia.
      * intros [Hn [Hl Hlt]]. destruct i as [|i'].
        -- simpl in Hn. inversion Hn; subst. rewrite E in Hl. inversion Hl; subst. reflexivity.
        -- specialize (Hlt O l0 (Nat.lt_0_succ i') eq_refl). congruence.
    + destruct (cache_first_having r n) as [[[i' l'] f']|].
      * split.
        -- intro H. inversion H; subst. destruct (proj1 (IH _ _ _) eq_refl) as [Hn [Hl Hlt]].
           simpl. split; [exact Hn|]. split; [exact Hl|].
           intros j l1 Hj Hnj. destruct j as [|j'].
           ++ simpl in Hnj. inversion Hnj; subst. exact E.
           ++ simpl in Hnj. apply (Hlt j' l1); [lia|exact Hnj].
        -- intros [Hn [Hl Hlt]]. destruct i as [|i0].
           ++ simpl in Hn. inversion Hn; subst. congruence.
           ++ simpl in Hn.
              assert (G : Some (i', l', f') = Some (i0, l, f)).
              { apply IH. split; [exact Hn|]. split; [exact Hl|].
                intros j l1 Hj Hnj. apply (Hlt (S j) l1); [lia|exact Hnj]. }
              inversion G; subst. reflexivity.
      * split; [discriminate|].
        intros [Hn [Hl Hlt]]. destruct i as [|i0].
        -- simpl in Hn. inversion Hn; subst. congruence.
        -- simpl in Hn.
           assert (G : @None (nat * cache_loader * (N * option Z)) = Some (i0, l, f)).
           { apply IH. split; [exact Hn|]. split; [exact Hl|].
             intros j l1 Hj Hnj. apply (Hlt (S j) l1); [lia|exact Hnj]. }
           discriminate.
Qed.

Lemma cache_first_having_none ls n :
  cache_first_having ls n = None <-> cache_no_loader_has ls n.
Proof.
  unfold cache_no_loader_has. induction ls as [|l0 r IH]; simpl.
  - split; [intros _ l []|reflexivity].
  - destruct (cache_lookup (cl_files l0) n) as [f0|] eqn:E.
    + split; [discriminate|]. intro H. specialize (H l0 (or_introl eq_refl)). congruence.
    + destruct (cache_first_having r n) as [[[i' l'] f']|] eqn:F.
      * split; [discriminate|]. intro H.
        assert (G : @None (nat * cache_loader * (N * option Z)) = None) by reflexivity.
        assert (K : forall l, In l r -> cache_lookup (cl_files l) n = None) by (intros l Hl; apply H; right; exact Hl).
        apply IH in K. discriminate.
      * split; [|reflexivity]. intros _ l [Hl|Hl]; [subst; exact E|].
        apply (proj1 IH eq_refl l Hl).
Qed.

Lemma cache_first_having_lt ls n i l f :
  cache_first_having ls n = Some (i, l, f) -> (i < length ls)%nat.
Proof.
  intro H. apply cache_first_having_some in H. destruct H as [Hn _].
  apply nth_error_Some. congruence.
Qed.

Lemma cache_unit_reads_length len i : length (cache_unit_reads len i) = len.
Proof.
  revert i. induction len as [|len IH]; intros i; simpl; [reflexivity|].
  destruct i; simpl; [rewrite repeat_length; reflexivity|rewrite IH; reflexivity].
Qed.

(* loader i is read once, every other loader not at all *)
Lemma cache_unit_reads_nth len i j : (i < len)%nat ->
  nth j (cache_unit_reads len i) O = if Nat.eqb j i then 1%nat else O.
Proof.
  revert i j. induction len as [|len IH]; intros i j Hi; [lia|].
  simpl. destruct i as [|i'].
  - destruct j as [|j']; simpl; [reflexivity|].
    clear. revert j'. induction len as [|len IH]; intros [|j']; simpl; auto.
  - destruct j as [|j']; simpl; [reflexivity|]. apply IH. lia.
Qed.

Lemma cache_zero_reads_nth s j : nth j (cache_zero_reads s) O = O.
Proof.
  unfold cache_zero_reads. generalize (length (cs_loaders s)) as k. intro k. revert j.
  induction k as [|k IH]; intros [|j]; simpl; auto.
Qed.

(* ------------------------------------------------------------------ reload *)
Lemma cache_reload_obs s n : snd (cache_reload s n) = cache_spec_fresh s n.
Proof.
  unfold cache_reload, cache_spec_fresh, cache_outcome, cache_zero_reads.
  rewrite cache_try_loaders_spec.
  destruct (cache_first_having (cs_loaders s) n) as [[[i l] [src mt]]|]; [|reflexivity].
  destruct (cache_src_bad src); reflexivity.
Qed.

Lemma cache_reload_st s n :
  fst (cache_reload s n) =
  match cache_first_having (cs_loaders s) n with
  | Some (i, l, (src, mt)) =>
    if cache_src_bad src then s
    else if cs_on s then cache_with_cache s (cache_set (cs_cache s) n (mk_centry src (Some i) (cache_eff_mtime l mt)))
    else s
  | None => s
  end.
Proof.
  unfold cache_reload. rewrite cache_try_loaders_spec.
  destruct (cache_first_having (cs_loaders s) n) as [[[i l] [src mt]]|]; [|reflexivity].
  destruct (cache_src_bad src); [reflexivity|]. destruct (cs_on s); reflexivity.
Qed.

Lemma cache_reload_off s n : cs_on s = false -> cache_reload s n = (s, cache_spec_fresh s n).
Proof.
  intro H. rewrite (surjective_pairing (cache_reload s n)), cache_reload_obs, cache_reload_st, H.
  destruct (cache_first_having (cs_loaders s) n) as [[[i l] [src mt]]|]; [|reflexivity].
  destruct (cache_src_bad src); reflexivity.
Qed.

Lemma cache_reload_none s n :
  cache_first_having (cs_loaders s) n = None -> cache_reload s n = (s, COLoad CErrNotFound (cache_zero_reads s)).
Proof.
  intro H. rewrite (surjective_pairing (cache_reload s n)), cache_reload_obs, cache_reload_st.
  unfold cache_spec_fresh. rewrite H. reflexivity.
Qed.

(* ------------------------------------------------------------------ Load: hit or reload *)
Lemma cache_load_registered s n e :
  cache_lookup (cs_cache s) n = Some e -> ce_loader e = None -> cache_load s n = cache_hit s e.
Proof. intros H1 H2. unfold cache_load. rewrite H1, H2. reflexivity. Qed.

Lemma cache_load_absent s n :
  cache_lookup (cs_cache s) n = None -> cache_load s n = cache_reload s n.
Proof. intros H1. unfold cache_load. rewrite H1. reflexivity. Qed.

Lemma cache_load_cases s n :
  (exists e, cache_lookup (cs_cache s) n = Some e /\ cache_load s n = cache_hit s e) \/
  (cache_load s n = cache_reload s n /\
   (cache_lookup (cs_cache s) n = None \/
    exists e i, cache_lookup (cs_cache s) n = Some e /\ ce_loader e = Some i)).
Proof.
  unfold cache_load.
  destruct (cache_lookup (cs_cache s) n) as [e|] eqn:L; [|right; split; [reflexivity|left; reflexivity]].
  destruct (ce_loader e) as [i|] eqn:Le; [|left; exists e; split; reflexivity].
  destruct (cs_on s).
  - destruct (negb (cs_auto s)); [left; exists e; split; reflexivity|].
    destruct (cache_needs_reload s n e).
    + right. split; [reflexivity|]. right. exists e, i. split; [reflexivity|exact Le].
    + left. exists e. split; reflexivity.
  - right. split; [reflexivity|]. right. exists e, i. split; [reflexivity|exact Le].
Qed.

Lemma cache_step_other_cache s o : cs_cache (fst (cache_step_other s o)) = cs_cache s.
Proof. destruct o; reflexivity. Qed.

(* how an entry with a loader can be in the template map after a step: it was there, or this step
   is a Load of that name that read it from the first loader having the name *)
Lemma cache_step_entry s o n e i :
  cache_lookup (cs_cache (fst (cache_step s o))) n = Some e -> ce_loader e = Some i ->
  cache_lookup (cs_cache s) n = Some e \/
  (o = CLoad n /\ cs_on s = true /\ cache_src_bad (ce_src e) = false /\
   exists l mt, cache_first_having (cs_loaders s) n = Some (i, l, (ce_src e, mt)) /\
                ce_mtime e = cache_eff_mtime l mt).
Proof.
  intros H He. destruct o as [n' src|n'| | | | | | ]; simpl in H;
    try (left; rewrite ?cache_step_other_cache in H; exact H).
  - (* Register *)
    unfold cache_register in H. destruct (cache_src_bad src); [left; exact H|]. cbn in H.
    destruct (N.eq_dec n' n) as [->|Hne].
    + rewrite cache_lookup_set_eq in H. inversion H; subst. discriminate.
    + rewrite cache_lookup_set_neq in H by exact Hne. left; exact H.
  - (* Load *)
    destruct (cache_load_cases s n') as [[e0 [L0 Hh]]|[Hr _]].
    + rewrite Hh in H. left; exact H.
    + rewrite Hr, cache_reload_st in H.
      destruct (cache_first_having (cs_loaders s) n') as [[[j l] [src mt]]|] eqn:F; [|left; exact H].
      destruct (cache_src_bad src) eqn:B; [left; exact H|].
      destruct (cs_on s) eqn:On; [|left; exact H]. cbn in H.
      destruct (N.eq_dec n' n) as [->|Hne].
      * rewrite cache_lookup_set_eq in H. inversion H; subst. cbn in *. inversion He; subst.
        right. split; [reflexivity|]. split; [reflexivity|]. split; [exact B|].
        exists l, mt. split; [exact F|reflexivity].
      * rewrite cache_lookup_set_neq in H by exact Hne. left; exact H.
Qed.

(* ------------------------------------------------------------------ histories *)
Lemma cache_run_from_snoc s ops o :
  cache_run_from s (ops ++ [o]) = fst (cache_step (cache_run_from s ops) o).
Proof. unfold cache_run_from. rewrite fold_left_app. reflexivity. Qed.

Lemma cache_run_snoc ops o : cache_run (ops ++ [o]) = fst (cache_step (cache_run ops) o).
Proof. apply cache_run_from_snoc. Qed.

Lemma cache_last_reg_snoc ops o n :
  cache_last_reg (ops ++ [o]) n = cache_reg_upd n (cache_last_reg ops n) o.
Proof. unfold cache_last_reg. rewrite fold_left_app. reflexivity. Qed.

(* invariant: a template-map entry without loader is the last registration of its name, and every
   registration is there *)
Definition cache_reg_inv (acc : option N) (s : cache_state) (n : N) : Prop :=
  match acc with
  | Some src => cache_lookup (cs_cache s) n = Some (mk_centry src None 0%Z)
  | None => match cache_lookup (cs_cache s) n with
            | Some e => ce_loader e <> None
            | None => True
            end
  end.

Lemma cache_reg_inv_step s o n acc :
  cache_reg_inv acc s n -> cache_reg_inv (cache_reg_upd n acc o) (fst (cache_step s o)) n.
Proof.
  intro H. destruct o as [n' src|n'| | | | | | ];
    try (unfold cache_reg_inv in *; simpl; exact H).
  - (* Register *)
    simpl. unfold cache_register.
    destruct (cache_src_bad src) eqn:B; simpl.
    + rewrite andb_false_r. exact H.
    + rewrite andb_true_r. destruct (N.eqb n' n) eqn:E.
      * apply N.eqb_eq in E. subst n'. unfold cache_reg_inv. simpl. apply cache_lookup_set_eq.
      * apply N.eqb_neq in E. unfold cache_reg_inv in *. simpl.
        rewrite cache_lookup_set_neq by exact E. exact H.
  - (* Load *)
    simpl cache_reg_upd. simpl cache_step.
    destruct (cache_load_cases s n') as [[e0 [L0 Hh]]|[Hr Hc]].
    + rewrite Hh. exact H.
    + rewrite Hr, cache_reload_st.
      destruct (cache_first_having (cs_loaders s) n') as [[[j l] [src mt]]|]; [|exact H].
      destruct (cache_src_bad src); [exact H|]. destruct (cs_on s); [|exact H].
      unfold cache_reg_inv in *. simpl.
      destruct (N.eq_dec n' n) as [->|Hne].
      * rewrite cache_lookup_set_eq. destruct acc as [src0|].
        -- destruct Hc as [Hc|[e [i [Hc He]]]]; rewrite H in Hc; [discriminate|].
           inversion Hc; subst. discriminate.
        -- simpl. discriminate.
      * rewrite cache_lookup_set_neq by exact Hne. exact H.
Qed.

Lemma cache_reg_inv_run ops n : cache_reg_inv (cache_last_reg ops n) (cache_run ops) n.
Proof.
  induction ops as [|o ops IH] using rev_ind.
  - unfold cache_reg_inv; simpl. exact I.
  - rewrite cache_last_reg_snoc, cache_run_snoc. apply cache_reg_inv_step. exact IH.
Qed.

Lemma cache_inv_registered_proof ops n :
  (forall src, cache_last_reg ops n = Some src ->
     cache_lookup (cs_cache (cache_run ops)) n = Some (mk_centry src None 0%Z)) /\
  (forall e, cache_lookup (cs_cache (cache_run ops)) n = Some e -> ce_loader e = None ->
     cache_last_reg ops n = Some (ce_src e)).
Proof.
  pose proof (cache_reg_inv_run ops n) as H. unfold cache_reg_inv in H. split.
  - intros src E. rewrite E in H. exact H.
  - intros e L Le. destruct (cache_last_reg ops n) as [src|].
    + rewrite L in H. inversion H; subst. reflexivity.
    + rewrite L in H. contradiction.
Qed.

(* ------------------------------------------------------------------ C15_registration_wins *)
Lemma C15_registration_wins_proof : forall ops n src,
  cache_last_reg ops n = Some src ->
  cache_step (cache_run ops) (CLoad n) =
  (cache_run ops, COLoad (CServed src) (cache_zero_reads (cache_run ops))).
Proof.
  intros ops n src H. apply (proj1 (cache_inv_registered_proof ops n)) in H.
  simpl. rewrite (cache_load_registered _ _ _ H eq_refl). reflexivity.
Qed.

(* the engine before the repair: a registration made while caching is disabled is dropped, and in
   development mode a loader shadows a registration *)
Lemma C15_registration_wins_refuted_proof :
  exists ops n src, cache_last_reg ops n = Some src /\
    snd (cache_step_pinned (cache_run_pinned ops) (CLoad n)) = COLoad CErrNotFound [].
Proof.
  exists [CSetCache false; CRegister 0%N 1%N], 0%N, 1%N. vm_compute. split; reflexivity.
Qed.

Lemma C15_registration_shadowed_refuted_proof :
  exists ops n src, cache_last_reg ops n = Some src /\
    snd (cache_step_pinned (cache_run_pinned ops) (CLoad n)) = COLoad (CServed 2%N) [1%nat] /\ src <> 2%N.
Proof.
  exists [CAddLoader true; CLoaderPut 0 0%N 2%N (Some 5%Z); CRegister 0%N 1%N; CSetDevMode true], 0%N, 1%N.
  vm_compute. split; [reflexivity|]. split; [reflexivity|discriminate].
Qed.

(* ------------------------------------------------------------------ C15_cache_off_rereads *)
Lemma C15_cache_off_rereads_proof : forall ops n,
  cs_on (cache_run ops) = false -> cache_last_reg ops n = None ->
  cache_step (cache_run ops) (CLoad n) = (cache_run ops, cache_spec_fresh (cache_run ops) n).
Proof.
  intros ops n Hoff Hreg. simpl.
  pose proof (cache_reg_inv_run ops n) as H. rewrite Hreg in H. unfold cache_reg_inv in H.
  unfold cache_load. destruct (cache_lookup (cs_cache (cache_run ops)) n) as [e|].
  - destruct (ce_loader e); [|contradiction]. rewrite Hoff. apply cache_reload_off. exact Hoff.
  - apply cache_reload_off. exact Hoff.
Qed.

(* what a fresh read is, spelled out: first loader having the name, read exactly once *)
Lemma C15_fresh_spelled_out_proof : forall s n,
  (forall i l src mt, cache_first_is (cs_loaders s) n i l (src, mt) ->
     exists rd, cache_spec_fresh s n = COLoad (cache_outcome src) rd /\
                length rd = length (cs_loaders s) /\
                forall j, nth j rd O = if Nat.eqb j i then 1%nat else O) /\
  (cache_no_loader_has (cs_loaders s) n ->
     cache_spec_fresh s n = COLoad CErrNotFound (cache_zero_reads s)).
Proof.
  intros s n. split.
  - intros i l src mt H. pose proof H as H'. apply cache_first_having_some in H. unfold cache_spec_fresh. rewrite H.
    eexists. split; [reflexivity|]. split; [apply cache_unit_reads_length|].
    intro j. apply cache_unit_reads_nth. destruct H' as [Hn _]. apply nth_error_Some. congruence.
  - intro H. apply cache_first_having_none in H. unfold cache_spec_fresh. rewrite H. reflexivity.
Qed.

(* ------------------------------------------------------------------ C15_autoreload_fresh *)
Lemma cache_autoreload_any : forall s n e i l,
  cs_on s = true -> cs_auto s = true ->
  cache_lookup (cs_cache s) n = Some e -> ce_loader e = Some i ->
  nth_error (cs_loaders s) i = Some l ->
  (* timestamp-aware, newer timestamp or none obtainable: the current content of the first loader having the name *)
  (cl_ts l = true ->
   match cache_lookup (cl_files l) n with
   | Some (_, Some m) => (m > ce_mtime e)%Z
   | _ => True
   end ->
   snd (cache_step s (CLoad n)) = cache_spec_fresh s n) /\
  (* timestamp-aware, timestamp not newer: what is cached, no loader read, nothing changes *)
  (cl_ts l = true ->
   (exists src m, cache_lookup (cl_files l) n = Some (src, Some m) /\ (m <= ce_mtime e)%Z) ->
   cache_step s (CLoad n) = (s, cache_spec_kept s e)) /\
  (* not timestamp-aware: what is cached *)
  (cl_ts l = false -> cache_step s (CLoad n) = (s, cache_spec_kept s e)).
Proof.
  intros s n e i l On Au L Le Hn. simpl. unfold cache_load. rewrite L, Le, On, Au. simpl.
  unfold cache_needs_reload. rewrite Le, Hn.
  split; [|split].
  - intros Ts Hm. rewrite Ts.
    destruct (cache_lookup (cl_files l) n) as [[src [m|]]|]; try apply cache_reload_obs.
    assert (G : Z.gtb m (ce_mtime e) = true) by (apply Z.gtb_lt; lia).
    rewrite G. apply cache_reload_obs.
  - intros Ts [src [m [Hf Hm]]]. rewrite Ts, Hf.
    assert (G : Z.gtb m (ce_mtime e) = false).
    { destruct (Z.gtb m (ce_mtime e)) eqn:E; [apply Z.gtb_lt in E; lia|reflexivity]. }
    rewrite G. reflexivity.
  - intros Ts. rewrite Ts. reflexivity.
Qed.

Lemma C15_autoreload_fresh_proof : forall ops n e i l,
  let s := cache_run ops in
  cs_on s = true -> cs_auto s = true ->
  cache_lookup (cs_cache s) n = Some e -> ce_loader e = Some i ->
  nth_error (cs_loaders s) i = Some l -> cl_ts l = true ->
  (match cache_lookup (cl_files l) n with
   | Some (_, Some m) => (m > ce_mtime e)%Z
   | _ => True
   end ->
   snd (cache_step s (CLoad n)) = cache_spec_fresh s n) /\
  ((exists src m, cache_lookup (cl_files l) n = Some (src, Some m) /\ (m <= ce_mtime e)%Z) ->
   cache_step s (CLoad n) = (s, cache_spec_kept s e)).
Proof.
  intros ops n e i l s On Au L Le Hn Ts.
  destruct (cache_autoreload_any s n e i l On Au L Le Hn) as [A [B _]].
  split; [exact (A Ts)|exact (B Ts)].
Qed.

(* invariant: a cached entry with loader i and timestamp m carries the content that loader i had,
   as the first loader having the name, when a Load of that name read it and it reported m *)
Lemma C15_entry_provenance_proof : forall ops n e i,
  cache_lookup (cs_cache (cache_run ops)) n = Some e -> ce_loader e = Some i ->
  exists k l mt,
    nth_error ops k = Some (CLoad n) /\
    cache_first_is (cs_loaders (cache_run (firstn k ops))) n i l (ce_src e, mt) /\
    ce_mtime e = cache_eff_mtime l mt /\
    cache_src_bad (ce_src e) = false /\
    cs_on (cache_run (firstn k ops)) = true.
Proof.
  induction ops as [|o ops IH] using rev_ind; intros n e i L Le.
  - discriminate.
  - rewrite cache_run_snoc in L.
    destruct (cache_step_entry _ _ _ _ _ L Le) as [Hold|[Ho [On [B [l [mt [F M]]]]]]].
    + destruct (IH n e i Hold Le) as [k [l [mt [Hk [Hf [Hm [Hb Hon]]]]]]].
      assert (Hlt : (k < length ops)%nat) by (apply nth_error_Some; congruence).
      exists k, l, mt. split; [rewrite nth_error_app1 by exact Hlt; exact Hk|].
      rewrite firstn_app. replace (k - length ops)%nat with O by lia. simpl. rewrite app_nil_r.
      split; [exact Hf|]. split; [exact Hm|]. split; [exact Hb|exact Hon].
    + subst o. exists (length ops), l, mt.
      split; [rewrite nth_error_app2 by lia; rewrite Nat.sub_diag; reflexivity|].
      rewrite firstn_app, firstn_all, Nat.sub_diag. simpl. rewrite app_nil_r.
      split; [apply cache_first_having_some; exact F|]. split; [exact M|]. split; [exact B|exact On].
Qed.

(* the loader a cached entry names is registered (so the premises of C15_autoreload_fresh can be met) *)
Lemma cache_upd_loader_length ls l f : length (cache_upd_loader ls l f) = length ls.
Proof.
  revert l. induction ls as [|x r IH]; intros [|l]; simpl; auto.
Qed.

Lemma cache_step_loaders_length s o : (length (cs_loaders s) <= length (cs_loaders (fst (cache_step s o))))%nat.
Proof.
  destruct o as [n src|n| | | | | | ]; simpl; try lia.
  - unfold cache_register. destruct (cache_src_bad src); simpl; lia.
  - destruct (cache_load_cases s n) as [[e0 [L0 Hh]]|[Hr _]].
    + rewrite Hh. simpl. lia.
    + rewrite Hr, cache_reload_st.
      destruct (cache_first_having (cs_loaders s) n) as [[[j l] [src mt]]|]; [|lia].
      destruct (cache_src_bad src); [lia|]. destruct (cs_on s); simpl; lia.
  - rewrite cache_upd_loader_length. lia.
  - rewrite cache_upd_loader_length. lia.
  - rewrite app_length. simpl. lia.
Qed.

Lemma C15_entry_loader_registered_proof : forall ops n e i,
  cache_lookup (cs_cache (cache_run ops)) n = Some e -> ce_loader e = Some i ->
  exists l, nth_error (cs_loaders (cache_run ops)) i = Some l.
Proof.
  intros ops n e i L Le.
  assert (H : (i < length (cs_loaders (cache_run ops)))%nat).
  { revert n e i L Le. induction ops as [|o ops IH] using rev_ind; intros n e i L Le; [discriminate|].
    rewrite cache_run_snoc in *.
    pose proof (cache_step_loaders_length (cache_run ops) o) as Hlen.
    destruct (cache_step_entry _ _ _ _ _ L Le) as [Hold|[Ho [On [B [l [mt [F M]]]]]]].
    - specialize (IH n e i Hold Le). lia.
    - apply cache_first_having_lt in F. lia. }
  destruct (nth_error (cs_loaders (cache_run ops)) i) as [l|] eqn:E; [exists l; reflexivity|].
  apply nth_error_None in E. lia.
Qed.

(* ------------------------------------------------------------------ C15_frozen *)
Lemma cache_load_flags s n :
  cs_on (fst (cache_load s n)) = cs_on s /\ cs_auto (fst (cache_load s n)) = cs_auto s /\
  cs_loaders (fst (cache_load s n)) = cs_loaders s.
Proof.
  destruct (cache_load_cases s n) as [[e0 [L0 Hh]]|[Hr _]].
  - rewrite Hh. simpl. auto.
  - rewrite Hr, cache_reload_st.
    destruct (cache_first_having (cs_loaders s) n) as [[[j l] [src mt]]|]; [|auto].
    destruct (cache_src_bad src); [auto|]. destruct (cs_on s) eqn:On; simpl; auto.
Qed.

Lemma cache_frozen_step s o n e :
  cs_on s = true -> cs_auto s = false -> cache_lookup (cs_cache s) n = Some e ->
  cache_frozen_ok n o = true ->
  cs_on (fst (cache_step s o)) = true /\ cs_auto (fst (cache_step s o)) = false /\
  cache_lookup (cs_cache (fst (cache_step s o))) n = Some e.
Proof.
  intros On Au L Ok. destruct o as [n' src|n'| | | | | | ]; simpl in Ok; try discriminate;
    try (simpl; auto; fail).
  - (* Register of another name *)
    simpl. unfold cache_register. destruct (cache_src_bad src); simpl; [auto|].
    split; [exact On|]. split; [exact Au|].
    rewrite cache_lookup_set_neq; [exact L|]. apply N.eqb_neq. apply negb_true_iff. exact Ok.
  - (* Load *)
    simpl. destruct (N.eq_dec n' n) as [->|Hne].
    + unfold cache_load. rewrite L, On, Au. simpl. destruct (ce_loader e); simpl; auto.
    + destruct (cache_load_cases s n') as [[e0 [L0 Hh]]|[Hr Hc]].
      * rewrite Hh. simpl. auto.
      * rewrite Hr, cache_reload_st.
        destruct (cache_first_having (cs_loaders s) n') as [[[j l] [src mt]]|]; [|auto].
        destruct (cache_src_bad src); [auto|]. rewrite On. simpl.
        split; [exact On|]. split; [exact Au|].
        rewrite cache_lookup_set_neq by exact Hne. exact L.
Qed.

Lemma cache_frozen_run mid : forall s n e,
  cs_on s = true -> cs_auto s = false -> cache_lookup (cs_cache s) n = Some e ->
  (forall o, In o mid -> cache_frozen_ok n o = true) ->
  cs_on (cache_run_from s mid) = true /\ cs_auto (cache_run_from s mid) = false /\
  cache_lookup (cs_cache (cache_run_from s mid)) n = Some e.
Proof.
  induction mid as [|o mid IH]; intros s n e On Au L Ok; [simpl; auto|].
  destruct (cache_frozen_step s o n e On Au L (Ok o (or_introl eq_refl))) as [On' [Au' L']].
  change (cache_run_from s (o :: mid)) with (cache_run_from (fst (cache_step s o)) mid).
  apply IH; auto. intros o' Ho'. apply Ok. right. exact Ho'.
Qed.

(* a successful Load with caching enabled leaves an entry with the served source in the template map *)
Lemma cache_load_served_cached s n src rd :
  cs_on s = true -> snd (cache_load s n) = COLoad (CServed src) rd ->
  exists e, cache_lookup (cs_cache (fst (cache_load s n))) n = Some e /\ ce_src e = src.
Proof.
  intros On H. destruct (cache_load_cases s n) as [[e0 [L0 Hh]]|[Hr _]].
  - rewrite Hh in *. cbn in *. inversion H; subst. exists e0. split; [exact L0|reflexivity].
  - rewrite Hr in *. rewrite cache_reload_obs in H. rewrite cache_reload_st. unfold cache_spec_fresh in H.
    destruct (cache_first_having (cs_loaders s) n) as [[[j l] [src' mt]]|]; [|discriminate].
    unfold cache_outcome in H. destruct (cache_src_bad src'); [discriminate|]. inversion H; subst.
    rewrite On. simpl. rewrite cache_lookup_set_eq. eexists. split; reflexivity.
Qed.

Lemma cache_frozen_any : forall s mid n src rd,
  cs_on s = true -> cs_auto s = false ->
  (forall o, In o mid -> cache_frozen_ok n o = true) ->
  snd (cache_step s (CLoad n)) = COLoad (CServed src) rd ->
  let s2 := cache_run_from (fst (cache_step s (CLoad n))) mid in
  cache_step s2 (CLoad n) = (s2, COLoad (CServed src) (cache_zero_reads s2)).
Proof.
  intros s mid n src rd On Au Ok H s2. cbn in H.
  destruct (cache_load_served_cached s n src rd On H) as [e [L Hsrc]].
  destruct (cache_load_flags s n) as [F1 [F2 _]].
  assert (On1 : cs_on (fst (cache_step s (CLoad n))) = true) by (simpl; congruence).
  assert (Au1 : cs_auto (fst (cache_step s (CLoad n))) = false) by (simpl; congruence).
  destruct (cache_frozen_run mid _ n e On1 Au1 L Ok) as [On2 [Au2 L2]].
  fold s2 in On2, Au2, L2. simpl. unfold cache_load. rewrite L2, On2, Au2. simpl.
  subst src. destruct (ce_loader e); reflexivity.
Qed.

Lemma C15_frozen_proof : forall ops mid n src rd,
  let s := cache_run ops in
  cs_on s = true -> cs_auto s = false ->
  (forall o, In o mid -> cache_frozen_ok n o = true) ->
  snd (cache_step s (CLoad n)) = COLoad (CServed src) rd ->
  let s2 := cache_run_from (fst (cache_step s (CLoad n))) mid in
  cache_step s2 (CLoad n) = (s2, COLoad (CServed src) (cache_zero_reads s2)).
Proof. intros ops mid n src rd s. apply cache_frozen_any. Qed.

(* ------------------------------------------------------------------ C15_first_loader_wins *)
Lemma cache_first_loader_any : forall s n,
  (exists e, cache_lookup (cs_cache s) n = Some e /\ cache_step s (CLoad n) = (s, cache_spec_kept s e)) \/
  (snd (cache_step s (CLoad n)) = cache_spec_fresh s n /\
   (forall i l src mt, cache_first_is (cs_loaders s) n i l (src, mt) ->
      cache_src_bad src = false -> cs_on s = true ->
      cache_lookup (cs_cache (fst (cache_step s (CLoad n)))) n =
        Some (mk_centry src (Some i) (cache_eff_mtime l mt))) /\
   (forall m, m <> n ->
      cache_lookup (cs_cache (fst (cache_step s (CLoad n)))) m = cache_lookup (cs_cache s) m)).
Proof.
  intros s n. simpl. destruct (cache_load_cases s n) as [[e0 [L0 Hh]]|[Hr _]].
  - left. exists e0. split; [exact L0|]. rewrite Hh. reflexivity.
  - right. rewrite Hr. split; [apply cache_reload_obs|]. rewrite cache_reload_st. split.
    + intros i l src mt F B On. apply cache_first_having_some in F. rewrite F, B, On. simpl.
      apply cache_lookup_set_eq.
    + intros m Hm.
      destruct (cache_first_having (cs_loaders s) n) as [[[j l] [src mt]]|]; [|reflexivity].
      destruct (cache_src_bad src); [reflexivity|]. destruct (cs_on s); [|reflexivity]. simpl.
      apply cache_lookup_set_neq. congruence.
Qed.

Lemma C15_first_loader_wins_proof : forall ops n,
  let s := cache_run ops in
  (exists e, cache_lookup (cs_cache s) n = Some e /\ cache_step s (CLoad n) = (s, cache_spec_kept s e)) \/
  (snd (cache_step s (CLoad n)) = cache_spec_fresh s n /\
   (forall i l src mt, cache_first_is (cs_loaders s) n i l (src, mt) ->
      cache_src_bad src = false -> cs_on s = true ->
      cache_lookup (cs_cache (fst (cache_step s (CLoad n)))) n =
        Some (mk_centry src (Some i) (cache_eff_mtime l mt))) /\
   (forall m, m <> n ->
      cache_lookup (cs_cache (fst (cache_step s (CLoad n)))) m = cache_lookup (cs_cache s) m)).
Proof. intros ops n s. apply cache_first_loader_any. Qed.

Lemma C15_first_having_spec_proof : forall ls n,
  (forall i l f, cache_first_having ls n = Some (i, l, f) <-> cache_first_is ls n i l f) /\
  (cache_first_having ls n = None <-> cache_no_loader_has ls n).
Proof. intros ls n. split; [apply cache_first_having_some|apply cache_first_having_none]. Qed.

(* ------------------------------------------------------------------ C15_not_found_is_inert *)
Lemma C15_not_found_is_inert_proof : forall ops n,
  let s := cache_run ops in
  cache_no_loader_has (cs_loaders s) n ->
  (* nothing changes, in the cache or anywhere else: every continuation observes the same *)
  fst (cache_step s (CLoad n)) = s /\
  (forall cont, cache_trace_from (fst (cache_step s (CLoad n))) cont = cache_trace_from s cont) /\
  (* the call fails with the not-found error unless the template map still serves the name *)
  (snd (cache_step s (CLoad n)) = COLoad CErrNotFound (cache_zero_reads s) \/
   exists e, cache_lookup (cs_cache s) n = Some e /\ snd (cache_step s (CLoad n)) = cache_spec_kept s e) /\
  (* it does fail: when the name is neither registered nor cached *)
  (cache_lookup (cs_cache s) n = None ->
   snd (cache_step s (CLoad n)) = COLoad CErrNotFound (cache_zero_reads s)) /\
  (* when it was never registered and caching is disabled *)
  (cache_last_reg ops n = None -> cs_on s = false ->
   snd (cache_step s (CLoad n)) = COLoad CErrNotFound (cache_zero_reads s)) /\
  (* when it is cached from a timestamp-aware loader and auto-reload is on (the stale entry is not served) *)
  (forall e i l, cs_on s = true -> cs_auto s = true -> cache_lookup (cs_cache s) n = Some e ->
   ce_loader e = Some i -> nth_error (cs_loaders s) i = Some l -> cl_ts l = true ->
   snd (cache_step s (CLoad n)) = COLoad CErrNotFound (cache_zero_reads s)).
Proof.
  intros ops n s Hno. pose proof Hno as Hnone. apply cache_first_having_none in Hnone.
  assert (Hfresh : cache_spec_fresh s n = COLoad CErrNotFound (cache_zero_reads s)).
  { unfold cache_spec_fresh. rewrite Hnone. reflexivity. }
  assert (Hst : fst (cache_step s (CLoad n)) = s).
  { simpl. destruct (cache_load_cases s n) as [[e0 [L0 Hh]]|[Hr _]].
    - rewrite Hh. reflexivity.
    - rewrite Hr, cache_reload_none by exact Hnone. reflexivity. }
  split; [exact Hst|]. split; [intro cont; rewrite Hst; reflexivity|]. split; [|split; [|split]].
  - simpl. destruct (cache_load_cases s n) as [[e0 [L0 Hh]]|[Hr _]].
    + right. exists e0. split; [exact L0|]. rewrite Hh. reflexivity.
    + left. rewrite Hr, cache_reload_obs. exact Hfresh.
  - intro L. simpl. rewrite cache_load_absent by exact L. rewrite cache_reload_obs. exact Hfresh.
  - intros Hreg Hoff. unfold s. rewrite C15_cache_off_rereads_proof by assumption. simpl. exact Hfresh.
  - intros e i l On Au L Le Hn Ts.
    destruct (cache_autoreload_any s n e i l On Au L Le Hn) as [A _].
    rewrite A; [exact Hfresh|exact Ts|].
    rewrite (Hno l (nth_error_In _ _ Hn)). exact I.
Qed.

(* ------------------------------------------------------------------ the model refines the permitted-outcome spec *)
Lemma C15_model_refines_spec_proof : forall s d n,
  In (snd (cache_step s (CLoad n))) (cache_allowed s d n).
Proof.
  intros s d n. simpl. unfold cache_allowed, cache_load.
  destruct (cache_lookup (cs_cache s) n) as [e|]; [|left; symmetry; apply cache_reload_obs].
  destruct (ce_loader e) as [i|] eqn:Le; [|left; reflexivity].
  destruct (cs_on s); simpl; [|left; symmetry; apply cache_reload_obs].
  unfold cache_cached_verdict, cache_needs_reload. rewrite Le.
  destruct (cs_auto s); simpl; [|destruct (cache_mem n d); left; reflexivity].
  destruct (nth_error (cs_loaders s) i) as [l|]; [|left; reflexivity].
  destruct (cl_ts l); simpl; [|left; reflexivity].
  destruct (cache_lookup (cl_files l) n) as [[src [m|]]|]; try (left; symmetry; apply cache_reload_obs).
  destruct (Z.gtb m (ce_mtime e)); [left; symmetry; apply cache_reload_obs|].
  match goal with |- context [if ?c then CVKept else CVOpen] => destruct c end;
    [destruct (cache_mem n d)|]; left; reflexivity.
Qed.

(* where the text is definite the spec permits exactly one observation *)
Lemma C15_spec_definite_proof : forall s d n,
  (cache_lookup (cs_cache s) n = None -> cache_allowed s d n = [cache_spec_fresh s n]) /\
  (forall e, cache_lookup (cs_cache s) n = Some e -> ce_loader e = None ->
     cache_allowed s d n = [cache_spec_kept s e]) /\
  (forall e i, cache_lookup (cs_cache s) n = Some e -> ce_loader e = Some i -> cs_on s = false ->
     cache_allowed s d n = [cache_spec_fresh s n]) /\
  (forall e i, cache_lookup (cs_cache s) n = Some e -> ce_loader e = Some i -> cs_on s = true ->
     cs_auto s = false -> cache_mem n d = false -> cache_allowed s d n = [cache_spec_kept s e]) /\
  (forall e i l, cache_lookup (cs_cache s) n = Some e -> ce_loader e = Some i -> cs_on s = true ->
     cs_auto s = true -> nth_error (cs_loaders s) i = Some l -> cl_ts l = true ->
     match cache_lookup (cl_files l) n with
     | Some (_, Some m) => (m > ce_mtime e)%Z
     | _ => True
     end -> cache_allowed s d n = [cache_spec_fresh s n]) /\
  (forall e i l src f, cache_lookup (cs_cache s) n = Some e -> ce_loader e = Some i -> cs_on s = true ->
     cs_auto s = true -> nth_error (cs_loaders s) i = Some l -> cl_ts l = true ->
     cache_lookup (cl_files l) n = Some (src, Some (ce_mtime e)) ->
     cache_first_is (cs_loaders s) n i l f -> cache_mem n d = false ->
     cache_allowed s d n = [cache_spec_kept s e]).
Proof.
  intros s d n. unfold cache_allowed. repeat split.
  - intros L. rewrite L. reflexivity.
  - intros e L Le. rewrite L, Le. reflexivity.
  - intros e i L Le On. rewrite L, Le, On. reflexivity.
  - intros e i L Le On Au Hd. rewrite L, Le, On. unfold cache_cached_verdict. rewrite Au, Hd. reflexivity.
  - intros e i l L Le On Au Hn Ts Hm. rewrite L, Le, On. unfold cache_cached_verdict. rewrite Au, Hn, Ts. simpl.
    destruct (cache_lookup (cl_files l) n) as [[src [m|]]|]; try reflexivity.
    assert (G : Z.gtb m (ce_mtime e) = true) by (apply Z.gtb_lt; lia). rewrite G. reflexivity.
  - intros e i l src f L Le On Au Hn Ts Hf Hfirst Hd. rewrite L, Le, On.
    unfold cache_cached_verdict. rewrite Au, Hn, Ts, Hf. simpl.
    assert (G : Z.gtb (ce_mtime e) (ce_mtime e) = false).
    { destruct (Z.gtb (ce_mtime e) (ce_mtime e)) eqn:E; [apply Z.gtb_lt in E; lia|reflexivity]. }
    rewrite G, Z.eqb_refl. apply cache_first_having_some in Hfirst. rewrite Hfirst, Nat.eqb_refl, Hd. reflexivity.
Qed.

(* the ghost-carrying step is the model step *)
Lemma C15_spec_step_is_model_proof : forall s d o,
  fst (fst (cache_spec_step (s, d) o)) = fst (cache_step s o) /\
  snd (cache_spec_step (s, d) o) = snd (cache_step s o).
Proof.
  intros s d o. unfold cache_spec_step. destruct (cache_step s o) as [s' ob]. split; reflexivity.
Qed.
