(* functionRange as translated from the Go code (Gen/KernelsRange.v): the number of items, and the equality with the loop of Model/EvalBuiltins.v (bi_range_loop). *)
From Coq Require Import ZArith List Bool Lia.
From Twig Require Import Base.Bytes Base.Kernel Gen.KernelsRange Model.EvalBuiltins Proofs.KernelTactics.
Import ListNotations.
Local Open Scope Z_scope.

(* ---- range ---- *)
Lemma u64_small z : 0 <= z < 2^64 -> u64 z = z.
Proof. intros H. unfold u64. apply Z.mod_small. exact H. Qed.
Lemma u64_sub a b : in64 a = true -> in64 b = true -> a <= b -> u64 (u64 b - u64 a) = b - a.
Proof.
  intros Ha Hb Hab. apply in64_spec in Ha. apply in64_spec in Hb. unfold u64.
  rewrite Zminus_mod_idemp_l, Zminus_mod_idemp_r. apply Z.mod_small. lia.
Qed.
Lemma u64_neg s : in64 s = true -> s < 0 -> u64 (- u64 s) = - s.
Proof.
  intros Hs Hn. apply in64_spec in Hs. unfold u64.
  replace (- (s mod 2^64)) with (0 - s mod 2^64) by lia.
  rewrite Zminus_mod_idemp_r. apply Z.mod_small. lia.
Qed.
Lemma i64of_small z : 0 <= z < 2^63 -> i64of z = z.
Proof. intros H. unfold i64of. destruct (Z.ltb_spec z (2^63)); [reflexivity|lia]. Qed.

Definition krange_limit : Z := 10000000.
(* the number of items of range(start, stop, step), as the property reads it: the items are start, start + step, ...
   up to and including stop when it is hit *)
Definition krange_spec (start stop step : Z) : kres :=
  if step =? 0 then KRet b#"error" []
  else if (if 0 <? step then stop <? start else start <? stop) then KRet b#"empty" []
  else let q := Z.abs (stop - start) / Z.abs step in
       if q >=? krange_limit then KRet b#"error" [] else KRet b#"items" [KZ (q + 1)].

Lemma k_range_count_model start stop step :
  in64 start = true -> in64 stop = true -> in64 step = true ->
  k_range_count start stop step = krange_spec start stop step.
Proof.
  intros Hs He Hst. unfold k_range_count, krange_spec, krange_limit. cbv zeta.
  pose proof (proj1 (in64_spec _) Hs) as Hs'. pose proof (proj1 (in64_spec _) He) as He'.
  pose proof (proj1 (in64_spec _) Hst) as Hst'.
  destruct (Z.eqb_spec step 0) as [->|Hnz]; [reflexivity|].
  rewrite Z.gtb_ltb. destruct (Z.ltb_spec 0 step) as [Hpos|Hneg].
  - rewrite Z.gtb_ltb. destruct (Z.ltb_spec stop start) as [Hlt|Hge]; [reflexivity|].
    rewrite (u64_sub start stop Hs He Hge), (u64_small step) by lia.
    rewrite (Z.abs_eq (stop - start)), (Z.abs_eq step) by lia.
    assert (Hq : 0 <= (stop - start) / step <= stop - start).
    { split; [apply Z.div_pos; lia|]. apply Z.div_le_upper_bound; nia. }
    destruct ((stop - start) / step >=? 10000000) eqn:Hlim; [reflexivity|].
    rewrite Z.geb_leb in Hlim. apply Z.leb_gt in Hlim. rewrite i64of_small by lia. reflexivity.
  - assert (Hn : step < 0) by lia.
    destruct (Z.ltb_spec start stop) as [Hlt|Hge]; [reflexivity|].
    rewrite (u64_sub stop start He Hs Hge), (u64_neg step Hst Hn).
    rewrite (Z.abs_neq (stop - start)), (Z.abs_neq step) by lia.
    replace (- (stop - start)) with (start - stop) by lia.
    assert (Hq : 0 <= (start - stop) / - step <= start - stop).
    { split; [apply Z.div_pos; lia|]. apply Z.div_le_upper_bound; nia. }
    destruct ((start - stop) / - step >=? 10000000) eqn:Hlim; [reflexivity|].
    rewrite Z.geb_leb in Hlim. apply Z.leb_gt in Hlim. rewrite i64of_small by lia. reflexivity.
Qed.

Lemma k_range_item_model start step k : k_range_item start step k = KRet b#"item" [KZ (start + k * step)].
Proof. reflexivity. Qed.

(* every position the loop fills, 0 <= k < count: the stored item lies between start and stop. The product k * step
   alone may leave the int64 range (start = -2^63, stop = 2^63 - 1, step = 2^63 - 1, k = 2), so the check list of
   the translated term does not hold there; Go wraps, and the wrapped sum is the exact item all the same *)
Lemma k_range_item_between start stop step c k :
  in64 start = true -> in64 stop = true -> in64 step = true ->
  k_range_count start stop step = KRet b#"items" [KZ c] -> 0 <= k < c ->
  (0 < step -> start <= start + k * step <= stop) /\ (step < 0 -> stop <= start + k * step <= start).
Proof.
  intros Hs He Hst Hc Hk. rewrite (k_range_count_model _ _ _ Hs He Hst) in Hc. unfold krange_spec, krange_limit in Hc.
  apply in64_spec in Hs. apply in64_spec in He. apply in64_spec in Hst.
  destruct (Z.eqb_spec step 0); [discriminate|].
  destruct (Z.ltb_spec 0 step) as [Hpos|Hneg].
  - destruct (Z.ltb_spec stop start); [discriminate|]. cbv zeta in Hc.
    rewrite (Z.abs_eq (stop - start)), (Z.abs_eq step) in Hc by lia.
    destruct ((stop - start) / step >=? 10000000); [discriminate|]. inversion Hc; subst c.
    assert (Hm : step * ((stop - start) / step) <= stop - start) by (apply Z.mul_div_le; lia).
    assert (Hks : 0 <= k * step <= stop - start) by nia.
    split; intros; lia.
  - destruct (Z.ltb_spec start stop); [discriminate|]. cbv zeta in Hc.
    rewrite (Z.abs_neq (stop - start)), (Z.abs_neq step) in Hc by lia.
    destruct (- (stop - start) / - step >=? 10000000); [discriminate|]. inversion Hc; subst c.
    assert (Hm : (- step) * (- (stop - start) / - step) <= - (stop - start)) by (apply Z.mul_div_le; lia).
    assert (Hks : stop - start <= k * step <= 0) by nia.
    split; intros; lia.
Qed.

Lemma k_range_item_machine start stop step c k :
  in64 start = true -> in64 stop = true -> in64 step = true ->
  k_range_count start stop step = KRet b#"items" [KZ c] -> 0 <= k < c ->
  krun w64 (k_range_item_env start step k) k_range_item_ir = KRet b#"item" [KZ (start + k * step)].
Proof.
  intros Hs He Hst Hc Hk. destruct (k_range_item_between _ _ _ _ _ Hs He Hst Hc Hk) as [Hup Hdown].
  change (KRet b#"item" [KZ (w64 (start + w64 (k * step)))] = KRet b#"item" [KZ (start + k * step)]).
  rewrite w64_add_r, w64_small; [reflexivity|].
  assert (Hnz : step <> 0).
  { intros ->. rewrite (k_range_count_model _ _ _ Hs He Hst) in Hc. discriminate. }
  apply in64_spec in Hs. apply in64_spec in He. apply in64_spec.
  destruct (Z.ltb_spec 0 step); [specialize (Hup ltac:(lia))|specialize (Hdown ltac:(lia))]; lia.
Qed.

(* ---- the model's range loop (Model/EvalBuiltins.v, bi_range_loop: the loop the function was written as before it
   computed the count first) produces exactly count items, item k being start + k * step ---- *)

Definition krange_items (start step : Z) (c : Z) : list Z :=
  map (fun k => start + Z.of_nat k * step) (seq 0 (Z.to_nat c)).

Lemma krange_items_S start step c : 0 <= c ->
  krange_items start step (c + 1) = start :: krange_items (start + step) step c.
Proof.
  intros Hc. unfold krange_items. replace (Z.to_nat (c + 1)) with (S (Z.to_nat c)) by lia. cbn [seq map].
  f_equal; try lia. rewrite <- seq_shift, map_map. apply map_ext. intros k. lia.
Qed.

Lemma bi_range_loop_up : forall fuel i stop step, 0 < step -> stop - i < Z.of_nat fuel ->
  bi_range_loop fuel i stop step = if stop <? i then [] else krange_items i step ((stop - i) / step + 1).
Proof.
  induction fuel as [|f IH]; intros i stop step Hp Hf.
  - destruct (Z.ltb_spec stop i); [reflexivity|lia].
  - cbn [bi_range_loop]. destruct (Z.ltb_spec 0 step); [|lia].
    destruct (Z.leb_spec i stop) as [Hle|Hgt]; destruct (Z.ltb_spec stop i); try lia; [|reflexivity].
    rewrite IH by lia. destruct (Z.ltb_spec stop (i + step)) as [Hl|Hg].
    + rewrite Z.div_small by lia. rewrite krange_items_S by lia. reflexivity.
    + replace (stop - i) with ((stop - (i + step)) + 1 * step) by lia. rewrite Z.div_add by lia.
      assert (Hq : 0 <= (stop - (i + step)) / step) by (apply Z.div_pos; lia).
      rewrite (krange_items_S i step ((stop - (i + step)) / step + 1)) by lia. reflexivity.
Qed.

Lemma bi_range_loop_down : forall fuel i stop step, step < 0 -> i - stop < Z.of_nat fuel ->
  bi_range_loop fuel i stop step = if i <? stop then [] else krange_items i step ((i - stop) / - step + 1).
Proof.
  induction fuel as [|f IH]; intros i stop step Hp Hf.
  - destruct (Z.ltb_spec i stop); [reflexivity|lia].
  - cbn [bi_range_loop]. destruct (Z.ltb_spec 0 step); [lia|].
    destruct (Z.leb_spec stop i) as [Hle|Hgt]; destruct (Z.ltb_spec i stop); try lia; [|reflexivity].
    rewrite IH by lia. destruct (Z.ltb_spec (i + step) stop) as [Hl|Hg].
    + rewrite Z.div_small by lia. rewrite krange_items_S by lia. reflexivity.
    + replace (i - stop) with ((i + step - stop) + 1 * - step) by lia. rewrite Z.div_add by lia.
      assert (Hq : 0 <= (i + step - stop) / - step) by (apply Z.div_pos; lia).
      rewrite (krange_items_S i step ((i + step - stop) / - step + 1)) by lia. reflexivity.
Qed.

(* the code (count first, then item k = start + k * step) and the model's loop give the same list *)
Lemma k_range_is_model_loop start stop step fuel :
  in64 start = true -> in64 stop = true -> in64 step = true -> step <> 0 ->
  Z.abs (stop - start) < Z.of_nat fuel ->
  match k_range_count start stop step with
  | KRet tag [] => bytes_eqb tag b#"empty" = true -> bi_range_loop fuel start stop step = []
  | KRet tag [KZ c] => bytes_eqb tag b#"items" = true -> bi_range_loop fuel start stop step = krange_items start step c
  | _ => True
  end.
Proof.
  intros Hs He Hst Hnz Hf. rewrite (k_range_count_model _ _ _ Hs He Hst). unfold krange_spec, krange_limit.
  destruct (Z.eqb_spec step 0); [lia|].
  destruct (Z.ltb_spec 0 step) as [Hpos|Hneg].
  - rewrite (bi_range_loop_up fuel start stop step Hpos) by lia.
    destruct (Z.ltb_spec stop start); [intros _; reflexivity|]. cbv zeta.
    rewrite (Z.abs_eq (stop - start)), (Z.abs_eq step) by lia.
    destruct ((stop - start) / step >=? 10000000); [discriminate|]. intros _. reflexivity.
  - rewrite (bi_range_loop_down fuel start stop step) by lia.
    destruct (Z.ltb_spec start stop); [intros _; reflexivity|]. cbv zeta.
    rewrite (Z.abs_neq (stop - start)), (Z.abs_neq step) by lia.
    replace (- (stop - start)) with (start - stop) by lia.
    destruct ((start - stop) / - step >=? 10000000); [discriminate|]. intros _. reflexivity.
Qed.


Lemma k_range_count_bounded start stop step c :
  in64 start = true -> in64 stop = true -> in64 step = true ->
  k_range_count start stop step = KRet b#"items" [KZ c] -> 1 <= c <= krange_limit.
Proof.
  intros Hs He Hst Hc. rewrite (k_range_count_model _ _ _ Hs He Hst) in Hc. unfold krange_spec in Hc.
  destruct (Z.eqb_spec step 0) as [|Hnz]; [discriminate|].
  destruct (if 0 <? step then stop <? start else start <? stop); [discriminate|]. cbv zeta in Hc.
  destruct (Z.abs (stop - start) / Z.abs step >=? krange_limit) eqn:Hl; [discriminate|].
  inversion Hc; subst c. rewrite Z.geb_leb in Hl. apply Z.leb_gt in Hl.
  assert (0 <= Z.abs (stop - start) / Z.abs step) by (apply Z.div_pos; lia).
  lia.
Qed.
