(* The render context of the evaluator model: render.go RenderContext, NewRenderContext, Clone, GetVariable,
   SetVariable, GetMacro; the environment (template set, registered callbacks as data, security policy) and the
   invocation trace. No proofs here.

   Go contexts are mutable objects that point to their parent; a child context lives strictly inside one step
   of its creator (include, macro call, import, extends), during which the creator is not written. The model
   therefore stores the parent as a value (a snapshot) and threads the current context through rendering.

   Identity of nodes. Go compares BlockNode pointers and stores MacroNode pointers; model nodes are values. A
   block or macro is identified by (template name, block / macro name); templates whose block or macro names
   repeat are outside the model (Unmodelled, TemplateSet.ts_wf). rc_tpl is a ghost field naming the template
   whose nodes are being rendered; it is what a macro definition is registered under. *)
From Twig Require Import Base.Bytes Model.Ast Model.Value Model.ValueOps.

(* ---------------------------------------------------------------- trace *)
Inductive tr_event :=
| TrFilter (name : bytes)        (* a filter function was called *)
| TrFunction (name : bytes)      (* a function was called *)
| TrTest (name : bytes)          (* a test was called *)
| TrLoad (name : bytes).         (* engine.Load(name), found or not *)
Definition ev_trace := list tr_event.

(* ---------------------------------------------------------------- environment *)
(* user callbacks as data: what a registered custom filter / function / test does when called *)
Inductive cb_kind :=
| CbId                 (* returns the filtered value / its first argument (null without arguments); the spy *)
| CbFail (n : nat)     (* returns the sentinel error number n *)
| CbConst (v : value). (* returns v *)

Record ev_env := MkEnv {
  e_tpls : list (bytes * list node);          (* registered templates, parsed *)
  e_filters : list (bytes * cb_kind);         (* custom filters (they shadow the core ones of the same name) *)
  e_functions : list (bytes * cb_kind);
  e_tests : list (bytes * cb_kind);
  e_policy : option (list bytes * list bytes) (* security policy: allowed filters, allowed functions *)
}.

Definition ev_mem (x : bytes) (l : list bytes) : bool := existsb (bytes_eqb x) l.
Definition ev_filter_allowed (env : ev_env) (name : bytes) : bool :=
  match e_policy env with Some (fs, _) => ev_mem name fs | None => true end.
Definition ev_function_allowed (env : ev_env) (name : bytes) : bool :=
  match e_policy env with Some (_, fns) => ev_mem name fns | None => true end.

(* ---------------------------------------------------------------- context *)
(* one definition of a block along the extends chain: the template it stands in, and its body *)
Record blockdef := MkBd { bd_tpl : bytes; bd_body : list node }.

Inductive rctx := MkRc {
  rc_vars : list (bytes * value);                   (* context: the variables *)
  rc_parent : option rctx;                          (* parent *)
  rc_macros : list (bytes * (bytes * bytes));       (* macros: name -> (template, macro name) *)
  rc_blocks : list (bytes * list node);             (* blocks *)
  rc_parent_blocks : list (bytes * list node);      (* parentBlocks *)
  rc_chain : option (list (bytes * list blockdef)); (* blockChain; None is the nil map *)
  rc_extending : bool;                              (* extending *)
  rc_cur_block : option bytes;                      (* currentBlock (its name) *)
  rc_cur_defs : list blockdef;                      (* currentDefs *)
  rc_depth : nat;                                   (* blockDepth *)
  rc_in_parent_call : bool;                         (* inParentCall: never set by the code *)
  rc_sandboxed : bool;                              (* sandboxed *)
  rc_last_loaded : option bytes;                    (* lastLoadedTemplate (its name) *)
  rc_tpl : bytes                                    (* ghost: template of the nodes being rendered *)
}.

(* association lists with map semantics: m[k] = v replaces in place or appends *)
Fixpoint rc_assoc_set {A} (l : list (bytes * A)) (k : bytes) (v : A) : list (bytes * A) :=
  match l with
  | [] => [(k, v)]
  | (k', v') :: r => if bytes_eqb k' k then (k', v) :: r else (k', v') :: rc_assoc_set r k v
  end.

(* field updates *)
Definition rc_with_vars (c : rctx) (vs : list (bytes * value)) : rctx :=
  MkRc vs (rc_parent c) (rc_macros c) (rc_blocks c) (rc_parent_blocks c) (rc_chain c) (rc_extending c)
       (rc_cur_block c) (rc_cur_defs c) (rc_depth c) (rc_in_parent_call c) (rc_sandboxed c) (rc_last_loaded c) (rc_tpl c).
Definition rc_with_macros (c : rctx) (ms : list (bytes * (bytes * bytes))) : rctx :=
  MkRc (rc_vars c) (rc_parent c) ms (rc_blocks c) (rc_parent_blocks c) (rc_chain c) (rc_extending c)
       (rc_cur_block c) (rc_cur_defs c) (rc_depth c) (rc_in_parent_call c) (rc_sandboxed c) (rc_last_loaded c) (rc_tpl c).
Definition rc_with_blocks (c : rctx) (bs : list (bytes * list node)) (ch : option (list (bytes * list blockdef))) : rctx :=
  MkRc (rc_vars c) (rc_parent c) (rc_macros c) bs (rc_parent_blocks c) ch (rc_extending c)
       (rc_cur_block c) (rc_cur_defs c) (rc_depth c) (rc_in_parent_call c) (rc_sandboxed c) (rc_last_loaded c) (rc_tpl c).
Definition rc_with_extending (c : rctx) (b : bool) : rctx :=
  MkRc (rc_vars c) (rc_parent c) (rc_macros c) (rc_blocks c) (rc_parent_blocks c) (rc_chain c) b
       (rc_cur_block c) (rc_cur_defs c) (rc_depth c) (rc_in_parent_call c) (rc_sandboxed c) (rc_last_loaded c) (rc_tpl c).
(* currentBlock, currentDefs, blockDepth and the ghost template together *)
Definition rc_with_current (c : rctx) (b : option bytes) (defs : list blockdef) (depth : nat) (tpl : bytes) : rctx :=
  MkRc (rc_vars c) (rc_parent c) (rc_macros c) (rc_blocks c) (rc_parent_blocks c) (rc_chain c) (rc_extending c)
       b defs depth (rc_in_parent_call c) (rc_sandboxed c) (rc_last_loaded c) tpl.
Definition rc_with_depth (c : rctx) (depth : nat) (tpl : bytes) : rctx :=
  rc_with_current c (rc_cur_block c) (rc_cur_defs c) depth tpl.

(* NewRenderContext(env, vars, engine): everything empty or false, the variables copied *)
Definition rc_fresh (vars : list (bytes * value)) (tpl : bytes) : rctx :=
  MkRc vars None [] [] [] None false None [] 0 false false None tpl.

(* the assignments the creation sites make after NewRenderContext *)
Definition rc_derive (c : rctx) (parent : option rctx) (sandboxed : bool) (last : option bytes) : rctx :=
  MkRc (rc_vars c) parent (rc_macros c) (rc_blocks c) (rc_parent_blocks c) (rc_chain c) (rc_extending c)
       (rc_cur_block c) (rc_cur_defs c) (rc_depth c) (rc_in_parent_call c) sandboxed last (rc_tpl c).

(* ctx.Clone(): empty variables, the creator as parent, blocks and macros copied, sandbox flag and
   lastLoadedTemplate inherited, no block chain *)
Definition rc_clone (c : rctx) : rctx :=
  MkRc [] (Some c) (rc_macros c) (rc_blocks c) [] None false None [] 0 false (rc_sandboxed c) (rc_last_loaded c) (rc_tpl c).

(* ctx.SetVariable *)
Definition rc_set_var (c : rctx) (x : bytes) (v : value) : rctx := rc_with_vars c (rc_assoc_set (rc_vars c) x v).
(* ctx.context[name] *)
Definition rc_own_var (c : rctx) (x : bytes) : option value := assoc_bytes (rc_vars c) x.

(* ctx.GetVariable for plain names: own variables, then the parent chain; undefined is nil.
   (The engine has no globals unless AddGlobal is used; the model has none.) *)
Fixpoint rc_get_var (c : rctx) (x : bytes) : value :=
  match assoc_bytes (rc_vars c) x with
  | Some v => v
  | None => match rc_parent c with Some p => rc_get_var p x | None => VNull end
  end.

(* every variable the context can read, as the sandboxed include copies them: the own map, then the parent
   contexts from the nearest on; a name that is already there is kept (the nearest definition wins) *)
Definition rc_add_missing (acc vars : list (bytes * value)) : list (bytes * value) :=
  fold_left (fun a kv => match assoc_bytes a (fst kv) with Some _ => a | None => a ++ [kv] end) vars acc.
Fixpoint rc_flatten_vars (c : rctx) (acc : list (bytes * value)) : list (bytes * value) :=
  let acc' := rc_add_missing acc (rc_vars c) in
  match rc_parent c with Some p => rc_flatten_vars p acc' | None => acc' end.
Definition rc_visible_vars (c : rctx) : list (bytes * value) := rc_flatten_vars c [].

(* ctx.GetMacro: own macros, then the parent chain *)
Fixpoint rc_get_macro (c : rctx) (x : bytes) : option (bytes * bytes) :=
  match assoc_bytes (rc_macros c) x with
  | Some m => Some m
  | None => match rc_parent c with Some p => rc_get_macro p x | None => None end
  end.

(* GetVariable has two legacy string hacks: a name that starts with [ and contains ] is read as an array
   literal, a name containing both ? and : as a conditional. No tokenised name can trigger them; the model
   answers Unmodelled for such names. *)
Definition rc_hack_name (x : bytes) : bool :=
  match x with
  | b0 :: _ :: _ => (Byte.eqb b0 x5b && existsb (Byte.eqb x5d) x) || (existsb (Byte.eqb x3f) x && existsb (Byte.eqb x3a) x)
  | _ => false
  end.
