(* Model of the compiled-template wire format: compiled.go SerializeCompiledTemplate, writeString,
   DeserializeCompiledTemplate, deserializeBinaryFormat, readString, LoadFromCompiled, and of the file
   naming of compiled_loader.go (SaveCompiled / Load).  State of the code: after repair c024bc1.

   Byte layout written by SerializeCompiledTemplate (all integers little endian):
     u8 version = 1 | u32 len(Name) | Name | u32 len(Source) | Source |
     i64 LastModified | i64 CompileTime | u32 len(AST) | AST
   The writer refuses a Name, Source or AST of 2^32 bytes or more (serialize_compiled_checked); the
   layout function serialize_compiled itself is total and is what the writer emits when it accepts.
   Reading goes through bytes.Reader, binary.Read and io.ReadFull only, which never index past the
   end: a short read is an error value, never a panic.  Every make([]byte, n) is preceded by the test
   n <= r.Len(), so the reader never asks for more memory than input is left; the model records the
   requests in a trace.

   When the binary format is rejected and the data does not begin with the version byte 1,
   DeserializeCompiledTemplate hands the bytes to encoding/gob (old format).  gob itself is not
   modelled: it is a parameter of deserialize_compiled.  Data that begins with the byte 1 never
   reaches gob.  No proofs in this file. *)
From Twig Require Import Base.Bytes.
From Coq Require Import NArith.
Local Open Scope N_scope.

(* CompiledTemplate: AST is the gob encoding of the node tree, opaque here *)
Record compiled := mkCompiled {
  c_name : bytes;
  c_source : bytes;
  c_last_modified : Z;
  c_compile_time : Z;
  c_ast : bytes }.

Definition two32 : N := 4294967296.
Definition two63 : N := 9223372036854775808.
Definition two64 : N := 18446744073709551616.

(* the byte with value n mod 256 *)
Definition byte_of_N (n : N) : byte :=
  match Byte.of_N (n mod 256) with Some b => b | None => x00 end.

(* len(s) as a binary number; accumulator form so that the extracted code runs in constant stack *)
Fixpoint lenN_acc (s : bytes) (acc : N) : N :=
  match s with [] => acc | _ :: r => lenN_acc r (N.succ acc) end.
Definition lenN (s : bytes) : N := lenN_acc s 0.

(* encoding/binary LittleEndian: the k low-order bytes of n, least significant first *)
Fixpoint le_encode (k : nat) (n : N) : bytes :=
  match k with O => [] | S k' => byte_of_N n :: le_encode k' (n / 256) end.
Fixpoint le_decode (l : bytes) : N :=
  match l with [] => 0 | b :: r => Byte.to_N b + 256 * le_decode r end.

(* binary.Write(w, LittleEndian, uint32(n)): the conversion wraps modulo 2^32 *)
Definition put_u32 (n : N) : bytes := le_encode 4 (n mod two32).
(* binary.Write(w, LittleEndian, v) for v int64: the twos complement bit pattern *)
Definition put_i64 (z : Z) : bytes := le_encode 8 (Z.to_N (z mod Z.of_N two64)).
Definition i64_of_N (n : N) : Z := if n <? two63 then Z.of_N n else (Z.of_N n - Z.of_N two64)%Z.

(* bytes.Buffer: content kept in reverse so that every Write is tail recursive *)
Definition wb_write (buf : bytes) (s : bytes) : bytes := rev_append s buf.
Definition wb_bytes (buf : bytes) : bytes := rev_append buf [].

(* writeString *)
Definition write_string (buf : bytes) (s : bytes) : bytes :=
  wb_write (wb_write buf (put_u32 (lenN s))) s.

(* the bytes SerializeCompiledTemplate emits; bytes.Buffer writes cannot fail *)
Definition serialize_compiled (c : compiled) : bytes :=
  let buf := wb_write [] [x01] in
  let buf := write_string buf (c_name c) in
  let buf := write_string buf (c_source c) in
  let buf := wb_write buf (put_i64 (c_last_modified c)) in
  let buf := wb_write buf (put_i64 (c_compile_time c)) in
  let buf := wb_write buf (put_u32 (lenN (c_ast c))) in
  let buf := wb_write buf (c_ast c) in
  wb_bytes buf.

(* SerializeCompiledTemplate with its guards: writeString and the AST write refuse lengths above
   math.MaxUint32 *)
Definition serialize_compiled_checked (c : compiled) : option bytes :=
  if (two32 <=? lenN (c_name c)) || (two32 <=? lenN (c_source c)) || (two32 <=? lenN (c_ast c))
  then None else Some (serialize_compiled c).

(* ---- reading: the only accessor. io.ReadFull(r, buf) with len(buf) = n on a bytes.Reader holding l:
   the next n bytes and the remainder, or an error when fewer than n bytes are left.  n = 0 succeeds
   even at the end of the input (ReadFull does not call Read then). *)
Fixpoint read_exact_acc (l : bytes) (n : N) (acc : bytes) {struct l} : option (bytes * bytes) :=
  if n =? 0 then Some (rev_append acc [], l)
  else match l with
       | [] => None
       | b :: r => read_exact_acc r (N.pred n) (b :: acc)
       end.
Definition read_exact (l : bytes) (n : N) : option (bytes * bytes) := read_exact_acc l n [].

Definition read_u8 (l : bytes) : option (byte * bytes) :=
  match l with [] => None | b :: r => Some (b, r) end.
Definition read_u32 (l : bytes) : option (N * bytes) :=
  match read_exact l 4 with Some (bs, r) => Some (le_decode bs, r) | None => None end.
Definition read_i64 (l : bytes) : option (Z * bytes) :=
  match read_exact l 8 with Some (bs, r) => Some (i64_of_N (le_decode bs), r) | None => None end.

(* readString (and the same four steps for the AST in deserializeBinaryFormat): read the u32; error
   when it exceeds what is left; only then make([]byte, n) - recorded in the trace - and ReadFull *)
Definition read_string_tr (l : bytes) : option (bytes * bytes) * list N :=
  match read_u32 l with
  | None => (None, [])
  | Some (n, r) => if lenN r <? n then (None, []) else (read_exact r n, [n])
  end.

(* deserializeBinaryFormat with the trace of make([]byte, n) sizes requested, in order *)
Definition deserialize_binary_tr (data : bytes) : option compiled * list N :=
  match read_u8 data with
  | None => (None, [])
  | Some (v, r0) =>
    if negb (Byte.eqb v x01) then (None, []) else
    match read_string_tr r0 with
    | (None, a1) => (None, a1)
    | (Some (name, r2), a1) =>
      match read_string_tr r2 with
      | (None, a2) => (None, a1 ++ a2)
      | (Some (src, r4), a2) =>
        match read_i64 r4 with
        | None => (None, a1 ++ a2)
        | Some (lm, r5) =>
          match read_i64 r5 with
          | None => (None, a1 ++ a2)
          | Some (ct, r6) =>
            match read_string_tr r6 with
            | (None, a3) => (None, a1 ++ a2 ++ a3)
            | (Some (ast, _), a3) => (Some (mkCompiled name src lm ct ast), a1 ++ a2 ++ a3)
            end
          end
        end
      end
    end
  end.

Definition deserialize_binary (data : bytes) : option compiled := fst (deserialize_binary_tr data).
Definition deserialize_allocs (data : bytes) : list N := snd (deserialize_binary_tr data).

(* DeserializeCompiledTemplate: empty input is an error; the binary format first; when that fails,
   data that begins with the version byte is reported as damaged, anything else goes to the old gob
   format *)
Section Gob.
  Variable gob_decode : bytes -> option compiled.
  Definition deserialize_compiled (data : bytes) : option compiled :=
    match data with
    | [] => None
    | b0 :: _ =>
      match deserialize_binary data with
      | Some c => Some c
      | None => if Byte.eqb b0 x01 then None else gob_decode data
      end
    end.
End Gob.

Definition empty_compiled : compiled := mkCompiled [] [] 0%Z 0%Z [].

(* the gob parameter used by the case generator: gob is not modelled, so it rejects, and the
   generator marks exactly the inputs that reach gob so that the runner does not compare them *)
Definition gob_model (data : bytes) : option compiled := None.

Definition gob_unmodelled (data : bytes) : bool :=
  match data, deserialize_binary data with
  | b0 :: _, None => negb (Byte.eqb b0 x01)
  | _, _ => false
  end.

(* ---- LoadFromCompiled: use the decoded AST when there is one and it decodes, else parse the source.
   The node tree, the parser and the gob decoder of trees are parameters. *)
Section Load.
  Variable tree : Type.
  Variable parse_source : bytes -> option tree.
  Variable ast_decode : bytes -> option tree.
  Definition load_from_compiled (c : compiled) : option tree :=
    match (match c_ast c with [] => None | _ => ast_decode (c_ast c) end) with
    | Some t => Some t
    | None => parse_source (c_source c)
    end.
End Load.

(* ---- compiled_loader.go: SaveCompiled writes directory/name.twig.compiled, Load reads the same
   path and returns the Source of what it deserialises.  The directory is an association list. *)
Definition compiled_ext : bytes := Eval cbv in b#".twig.compiled".
Definition compiled_path (name : bytes) : bytes := name ++ compiled_ext.
Definition loader_save (dir : list (bytes * bytes)) (name : bytes) (c : compiled) : list (bytes * bytes) :=
  (compiled_path name, serialize_compiled c) :: dir.
Definition loader_load (gob : bytes -> option compiled) (dir : list (bytes * bytes)) (name : bytes) : option bytes :=
  match assoc_bytes dir (compiled_path name) with
  | None => None
  | Some data => match deserialize_compiled gob data with Some c => Some (c_source c) | None => None end
  end.

(* ---- the shapes the translator extracts from compiled.go / compiled_loader.go
   (Gen/CompiledLayout.v); the model above was written against exactly these *)
Definition model_compiled_fields : list (bytes * bytes) :=
  [(b#"Name", b#"string"); (b#"Source", b#"string"); (b#"LastModified", b#"int64");
   (b#"CompileTime", b#"int64"); (b#"AST", b#"[]byte")].
Definition model_serialize_ops : list bytes :=
  [b#"binary.Write LittleEndian uint8(1)";
   b#"writeString compiled.Name";
   b#"writeString compiled.Source";
   b#"binary.Write LittleEndian compiled.LastModified";
   b#"binary.Write LittleEndian compiled.CompileTime";
   b#"if uint64(len(compiled.AST)) > math.MaxUint32";
   b#"binary.Write LittleEndian uint32(len(compiled.AST))";
   b#"Write compiled.AST"].
Definition model_write_string_ops : list bytes :=
  [b#"if uint64(len(s)) > math.MaxUint32"; b#"binary.Write LittleEndian uint32(len(s))"; b#"Write []byte(s)"].
Definition model_read_string_ops : list bytes :=
  [b#"binary.Read LittleEndian &length"; b#"if int64(length) > int64(r.Len())"; b#"make []byte length"; b#"io.ReadFull data"].
Definition model_deserialize_binary_ops : list bytes :=
  [b#"binary.Read LittleEndian &version";
   b#"if version != 1";
   b#"readString compiled.Name";
   b#"readString compiled.Source";
   b#"binary.Read LittleEndian &compiled.LastModified";
   b#"binary.Read LittleEndian &compiled.CompileTime";
   b#"binary.Read LittleEndian &astLength";
   b#"if int64(astLength) > int64(r.Len())";
   b#"make []byte astLength";
   b#"io.ReadFull compiled.AST"].
Definition model_deserialize_ops : list bytes :=
  [b#"if len(data) == 0"; b#"deserializeBinaryFormat data"; b#"if err == nil"; b#"if data[0] == 1"; b#"deserializeGobFormat data"].
Definition model_compiled_paths : list bytes :=
  [b#"Load filepath.Join(l.directory, name + l.fileExtension)";
   b#"SaveCompiled filepath.Join(l.directory, name + l.fileExtension)";
   b#"Exists filepath.Join(l.directory, name + l.fileExtension)";
   b#"GetModifiedTime filepath.Join(l.directory, name + l.fileExtension)"].
