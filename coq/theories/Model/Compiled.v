(* Model of the compiled-template wire format: compiled.go SerializeCompiledTemplate, writeString,
   DeserializeCompiledTemplate, deserializeBinaryFormat, readString, LoadFromCompiled, and of the file
   naming of compiled_loader.go (SaveCompiled / Load).

   Byte layout written by SerializeCompiledTemplate (all integers little endian):
     u8 version = 1 | u32 len(Name) | Name | u32 len(Source) | Source |
     i64 LastModified | i64 CompileTime | u32 len(AST) | AST
   The Go code converts every length with uint32(len(s)): the prefix is the length modulo 2^32 and no
   check is made.  Reading goes through bytes.Reader, binary.Read and io.ReadFull only, which never
   index past the end: a short read is an error value, never a panic.  The one unchecked step is
   make([]byte, length) BEFORE io.ReadFull: the requested size comes from the stream and is not
   compared with the number of bytes that are left.  The model records those requests in a trace.

   When the binary format is rejected DeserializeCompiledTemplate hands the same bytes to encoding/gob
   (old format).  gob itself is not modelled: it is a parameter of deserialize_compiled.  What is
   modelled (gob_verdict_of) is the one interaction that matters for streams of the new format, whose
   first byte 1 is, for gob, a message length of one byte.  No proofs in this file. *)
From Twig Require Import Base.Bytes.
From Coq Require Import NArith.
Local Open Scope N_scope.

(* CompiledTemplate: AST is the gob encoding of the node tree, opaque here *)
Record compiled := mkCompiled {
  c_name : bytes;
  c_source : bytes;
  c_last_modified : Z;
  c_compile_time : Z;
  c_ast : bytes }.

Definition two32 : N := 4294967296.
Definition two63 : N := 9223372036854775808.
Definition two64 : N := 18446744073709551616.

(* the byte with value n mod 256 *)
Definition byte_of_N (n : N) : byte :=
  match Byte.of_N (n mod 256) with Some b => b | None => x00 end.

(* len(s) as a binary number; accumulator form so that the extracted code runs in constant stack *)
Fixpoint lenN_acc (s : bytes) (acc : N) : N :=
  match s with [] => acc | _ :: r => lenN_acc r (N.succ acc) end.
Definition lenN (s : bytes) : N := lenN_acc s 0.

(* encoding/binary LittleEndian: the k low-order bytes of n, least significant first *)
Fixpoint le_encode (k : nat) (n : N) : bytes :=
  match k with O => [] | S k' => byte_of_N n :: le_encode k' (n / 256) end.
Fixpoint le_decode (l : bytes) : N :=
  match l with [] => 0 | b :: r => Byte.to_N b + 256 * le_decode r end.

(* binary.Write(w, LittleEndian, uint32(n)): the conversion wraps modulo 2^32 *)
Definition put_u32 (n : N) : bytes := le_encode 4 (n mod two32).
(* binary.Write(w, LittleEndian, v) for v int64: the twos complement bit pattern *)
Definition put_i64 (z : Z) : bytes := le_encode 8 (Z.to_N (z mod Z.of_N two64)).
Definition i64_of_N (n : N) : Z := if n <? two63 then Z.of_N n else (Z.of_N n - Z.of_N two64)%Z.

(* bytes.Buffer: content kept in reverse so that every Write is tail recursive *)
Definition wb_write (buf : bytes) (s : bytes) : bytes := rev_append s buf.
Definition wb_bytes (buf : bytes) : bytes := rev_append buf [].

(* writeString *)
Definition write_string (buf : bytes) (s : bytes) : bytes :=
  wb_write (wb_write buf (put_u32 (lenN s))) s.

(* SerializeCompiledTemplate; bytes.Buffer writes cannot fail, the function is total *)
Definition serialize_compiled (c : compiled) : bytes :=
  let buf := wb_write [] [x01] in
  let buf := write_string buf (c_name c) in
  let buf := write_string buf (c_source c) in
  let buf := wb_write buf (put_i64 (c_last_modified c)) in
  let buf := wb_write buf (put_i64 (c_compile_time c)) in
  let buf := wb_write buf (put_u32 (lenN (c_ast c))) in
  let buf := wb_write buf (c_ast c) in
  wb_bytes buf.

(* ---- reading: the only accessor. io.ReadFull(r, buf) with len(buf) = n on a bytes.Reader holding l:
   the next n bytes and the remainder, or an error when fewer than n bytes are left.  n = 0 succeeds
   even at the end of the input (ReadFull does not call Read then). *)
Fixpoint read_exact_acc (l : bytes) (n : N) (acc : bytes) {struct l} : option (bytes * bytes) :=
  if n =? 0 then Some (rev_append acc [], l)
  else match l with
       | [] => None
       | b :: r => read_exact_acc r (N.pred n) (b :: acc)
       end.
Definition read_exact (l : bytes) (n : N) : option (bytes * bytes) := read_exact_acc l n [].

Definition read_u8 (l : bytes) : option (byte * bytes) :=
  match l with [] => None | b :: r => Some (b, r) end.
Definition read_u32 (l : bytes) : option (N * bytes) :=
  match read_exact l 4 with Some (bs, r) => Some (le_decode bs, r) | None => None end.
Definition read_i64 (l : bytes) : option (Z * bytes) :=
  match read_exact l 8 with Some (bs, r) => Some (i64_of_N (le_decode bs), r) | None => None end.

(* deserializeBinaryFormat with the trace of make([]byte, n) sizes requested, in order.
   readString: read the u32, allocate that many bytes, ReadFull. *)
Definition deserialize_binary_tr (data : bytes) : option compiled * list N :=
  match read_u8 data with
  | None => (None, [])
  | Some (v, r0) =>
    if negb (Byte.eqb v x01) then (None, []) else
    match read_u32 r0 with
    | None => (None, [])
    | Some (nlen, r1) =>
      match read_exact r1 nlen with
      | None => (None, [nlen])
      | Some (name, r2) =>
        match read_u32 r2 with
        | None => (None, [nlen])
        | Some (slen, r3) =>
          match read_exact r3 slen with
          | None => (None, [nlen; slen])
          | Some (src, r4) =>
            match read_i64 r4 with
            | None => (None, [nlen; slen])
            | Some (lm, r5) =>
              match read_i64 r5 with
              | None => (None, [nlen; slen])
              | Some (ct, r6) =>
                match read_u32 r6 with
                | None => (None, [nlen; slen])
                | Some (alen, r7) =>
                  match read_exact r7 alen with
                  | None => (None, [nlen; slen; alen])
                  | Some (ast, _) => (Some (mkCompiled name src lm ct ast), [nlen; slen; alen])
                  end
                end
              end
            end
          end
        end
      end
    end
  end.

Definition deserialize_binary (data : bytes) : option compiled := fst (deserialize_binary_tr data).
Definition deserialize_allocs (data : bytes) : list N := snd (deserialize_binary_tr data).

(* DeserializeCompiledTemplate: empty input is an error; the binary format first; when that fails
   the old gob format on the same bytes *)
Section Gob.
  Variable gob_decode : bytes -> option compiled.
  Definition deserialize_compiled (data : bytes) : option compiled :=
    match data with
    | [] => None
    | _ =>
      match deserialize_binary data with
      | Some c => Some c
      | None => gob_decode data
      end
    end.
End Gob.

(* ---- what encoding/gob does with a stream that begins with the byte 1.
   For gob the first byte is the length of the first message: one byte, the byte b that follows.  That
   byte is a type id in the signed encoding of gob.  Even b < 128: id b/2.  Ids 18 (CommonType) and 21
   (fieldType) are bootstrap struct types of the gob package that have a field called Name, which
   makes them compatible with CompiledTemplate; the message has no bytes left for the value, and an
   empty struct value decodes to the zero struct without an error.  Every other id below 64 is not a
   struct with a matching field: error.  Odd b < 127: a definition for an id below 64: error.
   b = 127: defines type 64 from an empty wire type and goes on to the next message (not modelled).
   b >= 128: a multi-byte integer that does not fit the one-byte message: error. *)
Definition empty_compiled : compiled := mkCompiled [] [] 0%Z 0%Z [].

Inductive gob_verdict := GobAccept (c : compiled) | GobReject | GobUnmodelled.

Definition gob_verdict_of (data : bytes) : gob_verdict :=
  match data with
  | [] => GobReject
  | v :: rest =>
    if Byte.eqb v x01 then
      match rest with
      | [] => GobReject
      | b :: _ =>
        if Byte.eqb b x24 || Byte.eqb b x2a then GobAccept empty_compiled
        else if Byte.eqb b x7f then GobUnmodelled
        else GobReject
      end
    else GobUnmodelled
  end.

(* the gob parameter used wherever a concrete one is needed: unmodelled counts as rejected, and the
   driver marks those cases so that the runner does not compare them *)
Definition gob_model (data : bytes) : option compiled :=
  match gob_verdict_of data with GobAccept c => Some c | _ => None end.

Definition gob_unmodelled (data : bytes) : bool :=
  match deserialize_binary data, gob_verdict_of data with
  | None, GobUnmodelled => true
  | _, _ => false
  end.

(* ---- LoadFromCompiled: use the decoded AST when there is one and it decodes, else parse the source.
   The node tree, the parser and the gob decoder of trees are parameters. *)
Section Load.
  Variable tree : Type.
  Variable parse_source : bytes -> option tree.
  Variable ast_decode : bytes -> option tree.
  Definition load_from_compiled (c : compiled) : option tree :=
    match (match c_ast c with [] => None | _ => ast_decode (c_ast c) end) with
    | Some t => Some t
    | None => parse_source (c_source c)
    end.
End Load.

(* ---- compiled_loader.go: SaveCompiled writes directory/name.twig.compiled, Load reads the same
   path and returns the Source of what it deserialises.  The directory is an association list. *)
Definition compiled_ext : bytes := Eval cbv in b#".twig.compiled".
Definition compiled_path (name : bytes) : bytes := name ++ compiled_ext.
Definition loader_save (dir : list (bytes * bytes)) (name : bytes) (c : compiled) : list (bytes * bytes) :=
  (compiled_path name, serialize_compiled c) :: dir.
Definition loader_load (gob : bytes -> option compiled) (dir : list (bytes * bytes)) (name : bytes) : option bytes :=
  match assoc_bytes dir (compiled_path name) with
  | None => None
  | Some data => match deserialize_compiled gob data with Some c => Some (c_source c) | None => None end
  end.

(* ---- the shapes the translator extracts from compiled.go / compiled_loader.go
   (Gen/CompiledLayout.v); the model above was written against exactly these *)
Definition model_compiled_fields : list (bytes * bytes) :=
  [(b#"Name", b#"string"); (b#"Source", b#"string"); (b#"LastModified", b#"int64");
   (b#"CompileTime", b#"int64"); (b#"AST", b#"[]byte")].
Definition model_serialize_ops : list bytes :=
  [b#"binary.Write LittleEndian uint8(1)";
   b#"writeString compiled.Name";
   b#"writeString compiled.Source";
   b#"binary.Write LittleEndian compiled.LastModified";
   b#"binary.Write LittleEndian compiled.CompileTime";
   b#"binary.Write LittleEndian uint32(len(compiled.AST))";
   b#"Write compiled.AST"].
Definition model_write_string_ops : list bytes :=
  [b#"binary.Write LittleEndian uint32(len(s))"; b#"Write []byte(s)"].
Definition model_read_string_ops : list bytes :=
  [b#"binary.Read LittleEndian &length"; b#"make []byte length"; b#"io.ReadFull data"].
Definition model_deserialize_binary_ops : list bytes :=
  [b#"binary.Read LittleEndian &version";
   b#"if version != 1";
   b#"readString compiled.Name";
   b#"readString compiled.Source";
   b#"binary.Read LittleEndian &compiled.LastModified";
   b#"binary.Read LittleEndian &compiled.CompileTime";
   b#"binary.Read LittleEndian &astLength";
   b#"make []byte astLength";
   b#"io.ReadFull compiled.AST"].
Definition model_deserialize_ops : list bytes :=
  [b#"if len(data) == 0"; b#"deserializeBinaryFormat data"; b#"if err == nil"; b#"deserializeGobFormat data"].
Definition model_compiled_paths : list bytes :=
  [b#"Load filepath.Join(l.directory, name + l.fileExtension)";
   b#"SaveCompiled filepath.Join(l.directory, name + l.fileExtension)";
   b#"Exists filepath.Join(l.directory, name + l.fileExtension)";
   b#"GetModifiedTime filepath.Join(l.directory, name + l.fileExtension)"].
