(* Printers for expressions (C08). Token level: pp px e, where px chooses the sub-expressions that get
   parentheses although the table does not require them (pp_min: none; pp_full: every compound
   operand). Byte level: pp_render q sp, which writes the tokens with the quote character q around
   string literals and the white space sp i before the i-th token; pp_safe says when that spacing is
   lexically safe. pp_wf is the (boolean) well-formedness predicate of the round-trip theorems.
   No proofs here. *)
From Twig Require Import Base.Bytes Model.Ast Model.ExprLexer Model.Parser Gen.PrecTable Gen.CharClass.

(* ---- levels: conditional 0, binary operators by the table, tests at comparison level, then the
   postfix level (index, filter) and the level of simple expressions ---- *)
Definition pp_lv_postfix : nat := S prec_prefix.
Definition pp_lv_simple : nat := S (S prec_prefix).
Definition pp_bprec (o : binop) : nat := xp_get_prec (binop_str o).
(* a variable followed by attributes and method calls: read by the name loop of parseSimpleExpression *)
Fixpoint pp_is_chain (e : expr) : bool :=
  match e with
  | EVar _ => true
  | EAttr b _ => pp_is_chain b
  | EModCall b _ _ => pp_is_chain b
  | _ => false
  end.
(* the printed form ends in a bare name chain that a following dot would extend (-a.b is -(a.b)) *)
Fixpoint pp_dot_open (e : expr) : bool :=
  match e with
  | EVar _ => true
  | EAttr b _ | EModCall b _ _ => pp_is_chain b
  | EUn _ a => pp_dot_open a
  | _ => false
  end.
Definition pp_level (e : expr) : nat :=
  match e with
  | ECond _ _ _ => 0
  | EBin o _ _ => pp_bprec o
  | ETest _ _ _ _ => prec_compare
  | EItem _ _ | EFilter _ _ _ => pp_lv_postfix
  | EAttr b _ | EModCall b _ _ => if pp_is_chain b then pp_lv_simple else pp_lv_postfix
  | _ => pp_lv_simple
  end.

Definition pp_P (c : bytes) : xtok := XT XPunct c.
Definition pp_N (v : bytes) : xtok := XT XName v.
Definition pp_O (v : bytes) : xtok := XT XOp v.

Definition pp_binop_toks (o : binop) : list xtok :=
  match o with
  | BOr => [pp_N b#"or"] | BAnd => [pp_N b#"and"]
  | BIn => [pp_N b#"in"] | BNotIn => [pp_N b#"not"; pp_N b#"in"] | BMatches => [pp_N b#"matches"]
  | BStartsWith => [pp_N b#"starts"; pp_N b#"with"] | BEndsWith => [pp_N b#"ends"; pp_N b#"with"]
  | o => [pp_O (binop_str o)]
  end.
Definition pp_unop_tok (o : unop) : xtok :=
  match o with UNot => pp_N b#"not" | UNeg => pp_O b#"-" | UPos => pp_O b#"+" end.

Fixpoint pp_join (sep : xtok) (l : list (list xtok)) : list xtok :=
  match l with
  | [] => []
  | x :: r => match r with [] => x | _ => x ++ sep :: pp_join sep r end
  end.

(* ---- decimal digits of a non-negative integer ---- *)
Definition pp_digit (n : N) : byte :=
  match Byte.of_N (48 + n) with Some b => b | None => x30 end.
Fixpoint pp_dec_fuel (f : nat) (n : N) : bytes :=
  match f with
  | 0 => [pp_digit (n mod 10)]
  | S f' => if (n <? 10)%N then [pp_digit n] else pp_dec_fuel f' (n / 10) ++ [pp_digit (n mod 10)]
  end.
(* twenty steps: correct for every n below 10^21, which covers the integer literals of the parser *)
Definition pp_dec (n : N) : bytes := pp_dec_fuel 20 n.

(* ---- raw form of a string literal: backslash before backslash, both quotes and the closing
   brace (so that the raw text never contains the closer of a tag) ---- *)
Definition pp_must_escape (c : byte) : bool :=
  xl_is_bsl c || xl_is_quote c || Byte.eqb c x7d.
Fixpoint pp_escape (s : bytes) : bytes :=
  match s with
  | [] => []
  | c :: r => if pp_must_escape c then XBSL :: c :: pp_escape r else c :: pp_escape r
  end.

Definition pp_atomic (e : expr) : bool :=
  match e with
  | ELit _ | EVar _ | EAttr _ _ | EModCall _ _ _ | ECall _ _ | EArr _ | EHash _ => true
  | _ => false
  end.

Fixpoint pp (px : expr -> bool) (e : expr) : list xtok :=
  let par (q : nat) (e' : expr) : list xtok :=
    if (pp_level e' <? q) || px e' then pp_P b#"(" :: pp px e' ++ [pp_P b#")"] else pp px e' in
  (* the base of an attribute access that is not a name chain: an index, call, filter, literal or
     parenthesis; a unary operator applied to a name chain needs parentheses here *)
  let pdot (e' : expr) : list xtok :=
    if (pp_level e' <? pp_lv_postfix) || px e' || pp_dot_open e' then pp_P b#"(" :: pp px e' ++ [pp_P b#")"] else pp px e' in
  let args (es : list expr) : list xtok :=
    pp_P b#"(" :: pp_join (pp_P b#",") (map (par 0) es) ++ [pp_P b#")"] in
  let oargs (es : list expr) : list xtok := match es with [] => [] | _ => args es end in
  match e with
  | ELit LNull => [pp_N b#"null"]
  | ELit (LBool true) => [pp_N b#"true"]
  | ELit (LBool false) => [pp_N b#"false"]
  | ELit (LInt z) => [XT XNumber (pp_dec (Z.to_N z))]
  | ELit (LStr s) => [XT XString (pp_escape s)]
  | EVar x => [pp_N x]
  | EAttr b a => (if pp_is_chain b then pp px b else pdot b) ++ [pp_P b#"."; pp_N a]
  | EModCall m f es => (if pp_is_chain m then pp px m else pdot m) ++ pp_P b#"." :: pp_N f :: args es
  | EItem b i => par pp_lv_postfix b ++ pp_P b#"[" :: par 0 i ++ [pp_P b#"]"]
  | EUn o a => pp_unop_tok o :: par pp_lv_simple a
  | EBin o l r => par (pp_bprec o) l ++ pp_binop_toks o ++ par (pp_bprec o + prec_right_incr) r
  | ECond c t f => par prec_start c ++ pp_P b#"?" :: par 0 t ++ pp_P b#":" :: par 0 f
  | EArr es => pp_P b#"[" :: pp_join (pp_P b#",") (map (par 0) es) ++ [pp_P b#"]"]
  | EHash kvs =>
      pp_P b#"{" :: pp_join (pp_P b#",")
                      (map (fun kv => match kv with (k, v) => par 0 k ++ pp_P b#":" :: par 0 v end) kvs)
               ++ [pp_P b#"}"]
  | EFilter b f es => par pp_lv_postfix b ++ pp_P b#"|" :: pp_N f :: oargs es
  | ECall f es => pp_N f :: args es
  | ETest b t es neg =>
      par prec_compare b ++ pp_N b#"is" :: (if neg then [pp_N b#"not"] else []) ++ pp_N t :: oargs es
  end.

(* the whole expression, in a slot that takes any expression *)
Definition pp_top (px : expr -> bool) (e : expr) : list xtok :=
  if px e then pp_P b#"(" :: pp px e ++ [pp_P b#")"] else pp px e.

Definition pp_px_min (e : expr) : bool := false.
Definition pp_px_full (e : expr) : bool := negb (pp_atomic e).
Definition pp_min (e : expr) : list xtok := pp_top pp_px_min e.
Definition pp_full (e : expr) : list xtok := pp_top pp_px_full e.

(* ---- well-formed trees: what the parser can produce and the lexer can read back ---- *)
Definition pp_is_ident (x : bytes) : bool :=
  match x with c :: r => xl_ident_start c && forallb xl_ident_cont r | [] => false end.
Definition pp_keywords : list bytes := [b#"true"; b#"false"; b#"null"; b#"nil"; b#"not"].
Definition pp_name_ok (x : bytes) : bool := pp_is_ident x && negb (existsb (bytes_eqb x) pp_keywords).

Fixpoint pp_wf (e : expr) : bool :=
  match e with
  | ELit (LInt z) => (0 <=? z)%Z && (z <=? xp_max_int)%Z
  | ELit _ => true
  | EVar x => pp_name_ok x
  | EAttr b a => pp_wf b && pp_is_ident a
  | EModCall b f es => pp_wf b && pp_is_ident f && forallb pp_wf es
  | EItem b i => pp_wf b && pp_wf i
  | EUn _ a => pp_wf a
  | EBin _ l r => pp_wf l && pp_wf r
  | ECond c t f => pp_wf c && pp_wf t && pp_wf f
  | EArr es => forallb pp_wf es
  | EHash kvs => forallb (fun kv => match kv with (k, v) => pp_wf k && pp_wf v end) kvs
  | EFilter b f es => pp_wf b && pp_is_ident f && forallb pp_wf es
  | ECall f es => pp_name_ok f && forallb pp_wf es
  | ETest b t es _ => pp_wf b && pp_is_ident t && negb (bytes_eqb t b#"not") && forallb pp_wf es
  end.

(* ---- byte level ---- *)
Definition pp_tok_bytes (q : byte) (t : xtok) : bytes :=
  match t with
  | XT XString v => q :: v ++ [q]
  | XT _ v => v
  end.

(* sp i is written before the i-th token, sp (number of tokens) after the last one *)
Fixpoint pp_render (q : byte) (sp : nat -> bytes) (i : nat) (ts : list xtok) : bytes :=
  match ts with
  | [] => sp i
  | t :: r => sp i ++ pp_tok_bytes q t ++ pp_render q sp (S i) r
  end.

(* raw string content that the lexer reads back as one literal delimited by q: every q inside is
   escaped (preceded by an odd run of backslashes) and the closing quote is not *)
Fixpoint pp_raw_ok (q : byte) (pb : bool) (v : bytes) : bool :=
  match v with
  | [] => negb pb
  | c :: r => (if Byte.eqb c q then pb else true) && pp_raw_ok q (xl_esc_next pb c) r
  end.

Definition pp_tok_ok (q : byte) (t : xtok) : bool :=
  match t with
  | XT XName v => pp_is_ident v
  | XT XNumber v => match v with [] => false | _ => forallb xl_is_digit v end
  | XT XString v => pp_raw_ok q false v
  | XT XOp v => match v with
                | [c] => xl_is_operator c
                | [c; d] => xl_is_operator c && xl_two_char c d
                | _ => false
                end
  | XT XPunct v => match v with [c] => xl_is_punct c | _ => false end
  end.

Definition pp_first_byte (q : byte) (t : xtok) : option byte :=
  match pp_tok_bytes q t with c :: _ => Some c | [] => None end.

(* two tokens that must not be written without white space between them *)
Definition pp_need_space (q : byte) (t1 t2 : xtok) : bool :=
  match t1, pp_first_byte q t2 with
  | XT XName _, Some d => xl_ident_cont d
  | XT XNumber _, Some d => xl_is_digit d || Byte.eqb d XDOT
  | XT XOp [c], Some d => xl_two_char c d
  | XT XPunct [c], Some d => Byte.eqb c x7d && Byte.eqb d x7d    (* two closing braces end a print tag *)
  | _, _ => false
  end.

Fixpoint pp_safe (q : byte) (sp : nat -> bytes) (i : nat) (ts : list xtok) : bool :=
  forallb xl_is_space (sp i) &&
  match ts with
  | [] => true
  | t :: r =>
      pp_tok_ok q t &&
      match r with
      | [] => true
      | t2 :: _ => match sp (S i) with [] => negb (pp_need_space q t t2) | _ => true end
      end &&
      pp_safe q sp (S i) r
  end.

(* the three spacing styles of the generators *)
Definition pp_sp_single (n : nat) (i : nat) : bytes := if (i =? 0) || (i =? n) then [] else [x20].
Fixpoint pp_sp_compact_list (q : byte) (prev : option xtok) (ts : list xtok) : list bytes :=
  match ts with
  | [] => [[]]
  | t :: r =>
      (match prev with
       | Some p => if pp_need_space q p t then [x20] else []
       | None => []
       end) :: pp_sp_compact_list q (Some t) r
  end.
Definition pp_sp_compact (q : byte) (ts : list xtok) (i : nat) : bytes :=
  nth i (pp_sp_compact_list q None ts) [].

(* source text of an expression *)
Definition pp_src_min (e : expr) : bytes :=
  let ts := pp_min e in pp_render XSQ (pp_sp_single (length ts)) 0 ts.
Definition pp_src_full (e : expr) : bytes :=
  let ts := pp_full e in pp_render XSQ (pp_sp_single (length ts)) 0 ts.
