(* Model of the expression lexer: ZeroAllocTokenizer.TokenizeExpression (zero_alloc_tokenizer.go),
   the single-name shortcut of the print tag (IsValidVariableName, expr.go) and processEscapeSequences
   (parser.go). Character classes, the two-character operators, the identifier ranges and the
   presence of the minus alternative of the number branch come from Gen/CharClass.v; the ORDER in
   which the loop body tries its branches is fixed here (string, in-string, operator, punctuation,
   whitespace, identifier, number, otherwise skip one byte) and compared with the extracted order
   in Proofs/ParserProofs.v. No proofs here. *)
From Twig Require Import Base.Bytes Model.Ast Gen.CharClass.

Inductive xkind := XName | XNumber | XString | XOp | XPunct.
Inductive xtok := XT (k : xkind) (v : bytes).

Definition xkind_eqb (a b : xkind) : bool :=
  match a, b with
  | XName, XName | XNumber, XNumber | XString, XString | XOp, XOp | XPunct, XPunct => true
  | _, _ => false
  end.
Definition xtok_eqb (a b : xtok) : bool :=
  match a, b with XT k v, XT k' v' => xkind_eqb k k' && bytes_eqb v v' end.

Definition XBSL : byte := x5c.     (* backslash *)
Definition XSQ : byte := x27.      (* single quote *)
Definition XDQ : byte := x22.      (* double quote *)
Definition XMINUS : byte := x2d.
Definition XDOT : byte := x2e.

Definition xl_mem (c : byte) (l : bytes) : bool := existsb (Byte.eqb c) l.
Definition xl_in_ranges (c : byte) (rs : list (byte * byte)) : bool :=
  existsb (fun r => (Byte.to_N (fst r) <=? Byte.to_N c)%N && (Byte.to_N c <=? Byte.to_N (snd r))%N) rs.

Definition xl_is_operator (c : byte) : bool := xl_mem c cc_operator_chars.
Definition xl_is_punct (c : byte) : bool := xl_mem c cc_punct_chars.
Definition xl_is_space (c : byte) : bool := xl_mem c cc_whitespace_chars.
Definition xl_is_quote (c : byte) : bool := Byte.eqb c XDQ || Byte.eqb c XSQ.
Definition xl_ident_start (c : byte) : bool := xl_in_ranges c cc_ident_start.
Definition xl_ident_cont (c : byte) : bool := xl_in_ranges c cc_ident_cont.
Definition xl_is_digit (c : byte) : bool := xl_in_ranges c cc_digit.
Definition xl_two_char (c d : byte) : bool :=
  existsb (fun p => Byte.eqb c (fst p) && Byte.eqb d (snd p)) cc_two_char_ops.
Definition xl_is_bsl (c : byte) : bool := Byte.eqb c XBSL.

(* longest prefix whose bytes satisfy p, and the rest *)
Fixpoint xl_span (p : byte -> bool) (s : bytes) : bytes * bytes :=
  match s with
  | c :: r => if p c then let (a, b) := xl_span p r in (c :: a, b) else ([], s)
  | [] => ([], [])
  end.

(* escapedAt (zero_alloc_tokenizer.go): the byte at a position is escaped when it is preceded by an odd
   number of backslashes. The loop carries that parity: pb is true when the run of backslashes that ends
   just before the current position has odd length. *)
Definition xl_esc_next (pb : bool) (c : byte) : bool := if xl_is_bsl c then negb pb else false.
Fixpoint xl_last_bsl (prev : bool) (l : bytes) : bool :=
  match l with [] => prev | c :: r => xl_last_bsl (xl_esc_next prev c) r end.

Definition xl_cons (t : xtok) (o : outcome (list xtok)) : outcome (list xtok) :=
  match o with Ok l => Ok (t :: l) | Err e => Err e | OutOfFuel => OutOfFuel | Unmodelled => Unmodelled end.

(* the number branch: optional minus (when the code has that alternative), digits, optional
   point and digits. Returns the token value and the rest. *)
Definition xl_number (minus : bool) (body : bytes) : bytes * bytes :=
  let (ds, r1) := xl_span xl_is_digit body in
  let (frac, r2) := match r1 with
                    | d :: r1' => if Byte.eqb d XDOT
                                  then let (fs, r2) := xl_span xl_is_digit r1' in (d :: fs, r2)
                                  else ([], r1)
                    | [] => ([], [])
                    end in
  ((if minus then [XMINUS] else []) ++ ds ++ frac, r2).

(* The loop of TokenizeExpression. pb: the current position is escaped (escapedAt; false at
   position 0). st: Some (delimiter, reversed content so far) while inString. *)
Fixpoint xl_loop (fuel : nat) (pb : bool) (st : option (byte * bytes)) (s : bytes) : outcome (list xtok) :=
  match fuel with
  | 0 => OutOfFuel
  | S f =>
    match s with
    | [] => Ok []                                  (* an unterminated string emits nothing *)
    | c :: r =>
      if xl_is_quote c && negb pb then
        match st with
        | Some (d, acc) =>
            if Byte.eqb c d then xl_cons (XT XString (rev acc)) (xl_loop f false None r)
            else xl_loop f false (Some (d, c :: acc)) r
        | None => xl_loop f false (Some (c, [])) r
        end
      else
      match st with
      | Some (d, acc) => xl_loop f (xl_esc_next pb c) (Some (d, c :: acc)) r
      | None =>
        if xl_is_operator c then
          match r with
          | d :: r' =>
              if xl_two_char c d then xl_cons (XT XOp [c; d]) (xl_loop f (xl_last_bsl pb [c; d]) None r')
              else xl_cons (XT XOp [c]) (xl_loop f (xl_esc_next pb c) None r)
          | [] => Ok [XT XOp [c]]
          end
        else if xl_is_punct c then xl_cons (XT XPunct [c]) (xl_loop f (xl_esc_next pb c) None r)
        else if xl_is_space c then xl_loop f (xl_esc_next pb c) None r
        else if xl_ident_start c then
          let (a, rest) := xl_span xl_ident_cont r in
          xl_cons (XT XName (c :: a)) (xl_loop f (xl_last_bsl pb (c :: a)) None rest)
        else if xl_is_digit c then
          let (v, rest) := xl_number false s in
          xl_cons (XT XNumber v) (xl_loop f (xl_last_bsl pb v) None rest)
        else if cc_number_minus && Byte.eqb c XMINUS &&
                match r with d :: _ => xl_is_digit d | [] => false end then
          let (v, rest) := xl_number true r in
          xl_cons (XT XNumber v) (xl_loop f (xl_last_bsl pb v) None rest)
        else xl_loop f (xl_esc_next pb c) None r          (* unrecognised byte: skipped *)
      end
    end
  end.

(* every iteration consumes at least one byte *)
Definition xl_lex_fuel (s : bytes) : nat := S (length s).
Definition xl_lex (s : bytes) : outcome (list xtok) := xl_loop (xl_lex_fuel s) false None s.

(* the branch order the loop above implements, to be compared with cc_branch_order *)
Definition xl_model_branch_order : list bytes :=
  [b#"string"; b#"instring"; b#"operator"; b#"punct"; b#"space"; b#"ident"; b#"number"].

(* ---- IsValidVariableName (expr.go): isAlpha, isNameChar, the reserved words ---- *)
Definition xl_is_alpha (c : byte) : bool :=
  xl_in_ranges c [(x61, x7a); (x41, x5a); (x5f, x5f)].
Definition xl_is_name_char (c : byte) : bool := xl_is_alpha c || xl_in_ranges c [(x30, x39)].
Definition xl_reserved : list bytes :=
  [b#"true"; b#"false"; b#"null"; b#"nil"; b#"not"; b#"and"; b#"or"; b#"in"; b#"is"].
Definition xl_valid_var_name (s : bytes) : bool :=
  match s with
  | [] => false
  | c :: r => xl_is_alpha c && forallb xl_is_name_char r && negb (existsb (bytes_eqb s) xl_reserved)
  end.

(* the content of a print tag (already trimmed by the scanner): one NAME token when it is a
   valid variable name, TokenizeExpression otherwise; an empty tag has no tokens *)
Definition xl_lex_var_tag (s : bytes) : outcome (list xtok) :=
  match s with
  | [] => Ok []
  | _ => if xl_valid_var_name s then Ok [XT XName s] else xl_lex s
  end.

(* ---- processEscapeSequences (parser.go): backslash followed by a byte yields that byte, with
   n, r, t mapped to the control characters; a trailing lone backslash stays ---- *)
Fixpoint xl_unescape (s : bytes) : bytes :=
  match s with
  | [] => []
  | c :: r =>
      if xl_is_bsl c then
        match r with
        | d :: r' =>
            (if Byte.eqb d x6e then x0a else if Byte.eqb d x72 then x0d else if Byte.eqb d x74 then x09 else d)
            :: xl_unescape r'
        | [] => [c]
        end
      else c :: xl_unescape r
  end.
