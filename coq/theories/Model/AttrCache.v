(* Model of attribute access in render.go: getAttribute (with the process-wide attributeCache and
   evictLRUEntries) and the string-key part of getItem, as reached by GetAttrNode / GetItemNode in
   expr.go and EvaluateExpression.  No proofs here.

   Modelled universe (said once, used by the theorems and the generators):
   - struct types are finite trees (no recursive types): an ordered list of fields, each with a name, an
     exported flag and a kind: plain (string, int, or any other non-embedded field) or embedded struct,
     by value or by pointer.  Type identity is structural equality of the tree including the numeric
     type id [tid]: id 0 stands for an unnamed type (reflect.StructOf: identical structure = identical
     type), every named type has its own id.
   - the method table of a struct type is given as reflect exposes it for the pointer type (exported
     methods, promoted ones included, each marked value or pointer receiver, with its number of
     arguments); the method set of the value type is the sub-list of value-receiver methods.
   - reflect.Type.FieldByName is modelled by its documented breadth-first rule: the shallowest embedding
     depth that has a field of that name wins, two or more at that depth annihilate each other.
   - values: nil, strings, ints, struct values (positional field values), pointers, typed nil pointers,
     maps with string keys: generic (map[string]interface) or typed (map[string]string, map[string]int).
   - eviction order: sort.Slice over the map entries with a comparator on access counts and time stamps
     is not a function of anything the model tracks exactly, so the order is an explicit oracle; every
     theorem quantifies over all oracles. *)
From Twig Require Import Base.Bytes Gen.AttrConsts.

(* ------------------------------------------------------------------ types *)

Definition attr_path := list nat.

(* what a catalogue method returns: nothing, a constant, or the field of the receiver at an index path *)
Inductive attr_mret : Type :=
| AMRNone
| AMRStr (s : bytes)
| AMRInt (z : Z)
| AMRPath (p : attr_path).

Record attr_meth : Type := AMeth {
  am_name : bytes;
  am_ptr : bool;        (* declared on the pointer receiver *)
  am_nargs : nat;       (* arguments besides the receiver *)
  am_ret : attr_mret
}.

Inductive attr_sty : Type :=
| ASty (tid : N) (fs : attr_flds) (ms : list attr_meth)
with attr_flds : Type :=
| AFNil
| AFCons (name : bytes) (exported : bool) (k : attr_fk) (rest : attr_flds)
with attr_fk : Type :=
| AKPlain
| AKEmbed (ptr : bool) (t : attr_sty).

Definition attr_sty_fields (t : attr_sty) : attr_flds := match t with ASty _ fs _ => fs end.
Definition attr_sty_meths (t : attr_sty) : list attr_meth := match t with ASty _ _ ms => ms end.

(* structural equality = reflect.Type identity in the modelled universe *)
Fixpoint attr_natlist_eqb (a b : list nat) : bool :=
  match a, b with
  | [], [] => true
  | x :: a', y :: b' => Nat.eqb x y && attr_natlist_eqb a' b'
  | _, _ => false
  end.

Definition attr_mret_eqb (a b : attr_mret) : bool :=
  match a, b with
  | AMRNone, AMRNone => true
  | AMRStr s, AMRStr s' => bytes_eqb s s'
  | AMRInt z, AMRInt z' => Z.eqb z z'
  | AMRPath p, AMRPath p' => attr_natlist_eqb p p'
  | _, _ => false
  end.

Definition attr_meth_eqb (a b : attr_meth) : bool :=
  bytes_eqb (am_name a) (am_name b) && Bool.eqb (am_ptr a) (am_ptr b) &&
  Nat.eqb (am_nargs a) (am_nargs b) && attr_mret_eqb (am_ret a) (am_ret b).

Fixpoint attr_meths_eqb (a b : list attr_meth) : bool :=
  match a, b with
  | [], [] => true
  | x :: a', y :: b' => attr_meth_eqb x y && attr_meths_eqb a' b'
  | _, _ => false
  end.

Fixpoint attr_sty_eqb (a b : attr_sty) {struct a} : bool :=
  match a, b with
  | ASty i fs ms, ASty j gs ns => N.eqb i j && attr_flds_eqb fs gs && attr_meths_eqb ms ns
  end
with attr_flds_eqb (a b : attr_flds) {struct a} : bool :=
  match a, b with
  | AFNil, AFNil => true
  | AFCons n e k r, AFCons n' e' k' r' =>
      bytes_eqb n n' && Bool.eqb e e' && attr_fk_eqb k k' && attr_flds_eqb r r'
  | _, _ => false
  end
with attr_fk_eqb (a b : attr_fk) {struct a} : bool :=
  match a, b with
  | AKPlain, AKPlain => true
  | AKEmbed p t, AKEmbed q u => Bool.eqb p q && attr_sty_eqb t u
  | _, _ => false
  end.

(* number of embedding levels below a struct type *)
Fixpoint attr_sty_depth (t : attr_sty) : nat :=
  match t with ASty _ fs _ => attr_flds_depth fs end
with attr_flds_depth (fs : attr_flds) : nat :=
  match fs with
  | AFNil => 0
  | AFCons _ _ k r => Nat.max (attr_fk_depth k) (attr_flds_depth r)
  end
with attr_fk_depth (k : attr_fk) : nat :=
  match k with
  | AKPlain => 0
  | AKEmbed _ t => S (attr_sty_depth t)
  end.

(* ------------------------------------------------------------------ reflect.Type.FieldByName *)

(* one queue item of the breadth-first scan: index path of an embedded struct and its fields *)
Definition attr_scan : Type := (attr_path * attr_flds)%type.

(* the fields of one struct whose name matches: (index path, exported) *)
Fixpoint attr_level_matches (name : bytes) (pre : attr_path) (i : nat) (fs : attr_flds)
  : list (attr_path * bool) :=
  match fs with
  | AFNil => []
  | AFCons n e _ r =>
      (if bytes_eqb n name then [(pre ++ [i], e)] else []) ++ attr_level_matches name pre (S i) r
  end.

(* the embedded structs of one struct, queued for the next level (a field that matched is not queued) *)
Fixpoint attr_level_next (name : bytes) (pre : attr_path) (i : nat) (fs : attr_flds) : list attr_scan :=
  match fs with
  | AFNil => []
  | AFCons n _ k r =>
      (match k with
       | AKEmbed _ t => if bytes_eqb n name then [] else [(pre ++ [i], attr_sty_fields t)]
       | AKPlain => []
       end) ++ attr_level_next name pre (S i) r
  end.

Definition attr_scans_matches (name : bytes) (cur : list attr_scan) : list (attr_path * bool) :=
  flat_map (fun s => attr_level_matches name (fst s) 0 (snd s)) cur.
Definition attr_scans_next (name : bytes) (cur : list attr_scan) : list attr_scan :=
  flat_map (fun s => attr_level_next name (fst s) 0 (snd s)) cur.

(* level by level: exactly one match at the first level that has any, otherwise not found *)
Fixpoint attr_bfs (fuel : nat) (name : bytes) (cur : list attr_scan) : option (attr_path * bool) :=
  match fuel with
  | O => None
  | S f =>
      match attr_scans_matches name cur with
      | [] => attr_bfs f name (attr_scans_next name cur)
      | [m] => Some m
      | _ :: _ :: _ => None
      end
  end.

Definition attr_field_by_name (t : attr_sty) (name : bytes) : option (attr_path * bool) :=
  attr_bfs (S (attr_sty_depth t)) name [([], attr_sty_fields t)].

(* ------------------------------------------------------------------ reflect.Type.MethodByName *)

Fixpoint attr_find_meth (name : bytes) (i : nat) (ms : list attr_meth) : option (nat * attr_meth) :=
  match ms with
  | [] => None
  | m :: r => if bytes_eqb (am_name m) name then Some (i, m) else attr_find_meth name (S i) r
  end.

Definition attr_value_meths (ms : list attr_meth) : list attr_meth :=
  filter (fun m => negb (am_ptr m)) ms.

(* ------------------------------------------------------------------ cache entries *)

(* the part of attributeCacheEntry that decides the answer *)
Record attr_core : Type := ACore {
  acr_field_index : Z;          (* -1 if not a field *)
  acr_field_path : attr_path;
  acr_is_method : bool;
  acr_method_index : Z;         (* -1 if not a method *)
  acr_ptr_method : bool
}.

(* entry plus the access statistics used only by eviction *)
Record attr_entry : Type := AEntry {
  aen_core : attr_core;
  aen_last : nat;               (* lastAccess, a logical clock *)
  aen_count : nat               (* accessCount *)
}.

Definition attr_key : Type := (attr_sty * bytes)%type.   (* attributeCacheKey typ, attr *)
Definition attr_key_eqb (a b : attr_key) : bool :=
  attr_sty_eqb (fst a) (fst b) && bytes_eqb (snd a) (snd b).

(* the miss path of getAttribute: FieldByName, then MethodByName on the value type, else on the
   pointer type; a method counts only if it takes no argument besides the receiver *)
Definition attr_compute_core (t : attr_sty) (name : bytes) : attr_core :=
  let fld := match attr_field_by_name t name with
             | Some (i :: p, _) => (Z.of_nat i, i :: p)
             | _ => ((-1)%Z, [])
             end in
  let ms := attr_sty_meths t in
  let viaptr := match attr_find_meth name 0 ms with
                | Some (i, m) => if Nat.eqb (am_nargs m) 0 then (true, Z.of_nat i, true)
                                 else (false, (-1)%Z, false)
                | None => (false, (-1)%Z, false)
                end in
  let mth := match attr_find_meth name 0 (attr_value_meths ms) with
             | Some (i, m) => if Nat.eqb (am_nargs m) 0 then (true, Z.of_nat i, false) else viaptr
             | None => viaptr
             end in
  ACore (fst fld) (snd fld) (fst (fst mth)) (snd (fst mth)) (snd mth).

(* ------------------------------------------------------------------ values *)

Inductive attr_val : Type :=
| AVNil
| AVStr (s : bytes)
| AVInt (z : Z)
| AVStruct (t : attr_sty) (fv : list attr_val)
| AVPtr (v : attr_val)
| AVNilPtr
| AVMap (generic : bool) (kv : list (bytes * attr_val)).

Fixpoint attr_kv_get (kv : list (bytes * attr_val)) (k : bytes) : option attr_val :=
  match kv with
  | [] => None
  | (k', v) :: r => if bytes_eqb k' k then Some v else attr_kv_get r k
  end.

(* reflect.Value.FieldByIndexErr: from the second step on a pointer to an embedded struct is
   dereferenced, a nil one is an error *)
Fixpoint attr_field_by_index (first : bool) (p : attr_path) (v : attr_val) : option attr_val :=
  match p with
  | [] => Some v
  | i :: p' =>
      let sv := if first then Some v
                else match v with AVPtr u => Some u | AVNilPtr => None | _ => Some v end in
      match sv with
      | Some (AVStruct _ fv) =>
          match nth_error fv i with
          | Some f => attr_field_by_index false p' f
          | None => None
          end
      | _ => None
      end
  end.

Fixpoint attr_nth_fld (i : nat) (fs : attr_flds) : option (bool * attr_fk) :=
  match fs with
  | AFNil => None
  | AFCons _ e k r => match i with O => Some (e, k) | S j => attr_nth_fld j r end
  end.

(* reflect.Value.CanInterface of the field reached by an index path: the read-only flag of an
   unexported embedded field does not stick, so only the last field of the path decides *)
Fixpoint attr_path_exported (p : attr_path) (fs : attr_flds) : bool :=
  match p with
  | [] => false
  | i :: p' =>
      match attr_nth_fld i fs with
      | None => false
      | Some (e, k) =>
          match p' with
          | [] => e
          | _ :: _ => match k with
                      | AKEmbed _ t => attr_path_exported p' (attr_sty_fields t)
                      | AKPlain => false
                      end
          end
      end
  end.

(* method.Call(nil): first result, or nil when the method returns nothing *)
Definition attr_call (m : attr_meth) (recv : attr_val) : attr_val :=
  match am_ret m with
  | AMRNone => AVNil
  | AMRStr s => AVStr s
  | AMRInt z => AVInt z
  | AMRPath p => match attr_field_by_index true p recv with Some x => x | None => AVNil end
  end.

(* the tail of getAttribute: use the (cached) lookup information on the struct value.
   A pointer-receiver method on a non-pointer value is called on a pointer to a copy, which sees
   the same field values, so the receiver is the struct value in both cases. *)
Definition attr_apply_field (c : attr_core) (t : attr_sty) (fv : list attr_val) : option attr_val :=
  if (0 <=? acr_field_index c)%Z then
    match attr_field_by_index true (acr_field_path c) (AVStruct t fv) with
    | Some f => if attr_path_exported (acr_field_path c) (attr_sty_fields t) then Some f else None
    | None => None
    end
  else None.

Definition attr_apply_method (c : attr_core) (t : attr_sty) (fv : list attr_val) : attr_val :=
  if acr_is_method c && (0 <=? acr_method_index c)%Z then
    let mset := if acr_ptr_method c then attr_sty_meths t else attr_value_meths (attr_sty_meths t) in
    match nth_error mset (Z.to_nat (acr_method_index c)) with
    | Some m => attr_call m (AVStruct t fv)
    | None => AVNil
    end
  else AVNil.

(* field access first, then method access, else nil *)
Definition attr_apply (c : attr_core) (t : attr_sty) (fv : list attr_val) : attr_val :=
  match attr_apply_field c t fv with
  | Some f => f
  | None => attr_apply_method c t fv
  end.

(* ------------------------------------------------------------------ the cache *)

Record attr_cache : Type := ACache {
  ach_m : list (attr_key * attr_entry);   (* attributeCache.m *)
  ach_size : Z;                           (* attributeCache.currSize *)
  ach_clock : nat                         (* stands for time.Now() *)
}.

Definition attr_cache_empty : attr_cache := ACache [] 0%Z 0.

Fixpoint attr_m_get (k : attr_key) (m : list (attr_key * attr_entry)) : option attr_entry :=
  match m with
  | [] => None
  | (k', e) :: r => if attr_key_eqb k' k then Some e else attr_m_get k r
  end.

Definition attr_m_del (k : attr_key) (m : list (attr_key * attr_entry)) : list (attr_key * attr_entry) :=
  filter (fun ke => negb (attr_key_eqb (fst ke) k)) m.

Definition attr_m_set (k : attr_key) (e : attr_entry) (m : list (attr_key * attr_entry)) :=
  (k, e) :: attr_m_del k m.

(* sort.Slice over the collected entries: the resulting order of keys *)
Definition attr_oracle : Type := list (attr_key * attr_entry) -> list attr_key.

Definition attr_num_to_evict : nat :=
  Z.to_nat (if attr_evict_min_one && (attr_num_to_evict_raw <? 1)%Z then 1%Z else attr_num_to_evict_raw).

(* one iteration of the removal loop of evictLRUEntries *)
Definition attr_evict_one (c : attr_cache) (k : attr_key) : attr_cache :=
  ACache (if attr_evict_deletes then attr_m_del k (ach_m c) else ach_m c)
         (if attr_evict_decrements_size then (ach_size c - 1)%Z else ach_size c)
         (ach_clock c).

(* for i := 0; i < numToEvict && i < len(entries); i++ *)
Definition attr_evict (orc : attr_oracle) (c : attr_cache) : attr_cache :=
  fold_left attr_evict_one (firstn attr_num_to_evict (orc (ach_m c))) c.

Definition attr_cache_full (c : attr_cache) : bool :=
  if attr_evict_when_size_ge_max then (attr_max_size <=? ach_size c)%Z else (attr_max_size <? ach_size c)%Z.

(* the cached part of getAttribute for key (t, name): hit updates the statistics, miss evicts when
   full, computes the entry and stores it.  Histories are sequential, so the second look under the
   write lock sees what the first look saw. *)
Definition attr_cached_core (orc : attr_oracle) (c : attr_cache) (t : attr_sty) (name : bytes)
  : attr_cache * attr_core :=
  let key := (t, name) in
  match attr_m_get key (ach_m c) with
  | Some e =>
      let e' := AEntry (aen_core e) (ach_clock c) (S (aen_count e)) in
      (ACache (attr_m_set key e' (ach_m c)) (ach_size c) (S (ach_clock c)), aen_core e')
  | None =>
      let c1 := if attr_cache_full c then attr_evict orc c else c in
      let e := AEntry (attr_compute_core t name) (ach_clock c) 1 in
      (ACache (attr_m_set key e (ach_m c1))
              (if attr_insert_increments_size then (ach_size c1 + 1)%Z else ach_size c1)
              (S (ach_clock c)),
       aen_core e)
  end.

(* pointer indirection at the top of getAttribute: the struct value behind obj, if any *)
Definition attr_struct_of (v : attr_val) : option (attr_sty * list attr_val) :=
  match v with
  | AVStruct t fv => Some (t, fv)
  | AVPtr (AVStruct t fv) => Some (t, fv)
  | _ => None
  end.

(* getAttribute *)
Definition attr_get_attribute (orc : attr_oracle) (c : attr_cache) (v : attr_val) (name : bytes)
  : attr_cache * attr_val :=
  match v with
  | AVNil => (c, AVNil)
  | AVMap generic kv =>
      (* the fast path takes map[string]interface only; maps of other types reach getItem only when the
         translator found that branch in getAttribute (attr_typed_maps_by_key), otherwise they are not structs *)
      if generic || attr_typed_maps_by_key
      then (c, match attr_kv_get kv name with Some x => x | None => AVNil end)
      else (c, AVNil)
  | _ =>
      match attr_struct_of v with
      | Some (t, fv) =>
          let (c', core) := attr_cached_core orc c t name in (c', attr_apply core t fv)
      | None => (c, AVNil)     (* not a struct: pointers to non-structs, nil pointers, scalars *)
      end
  end.

(* getItem with a string index: generic maps by key, other maps through reflect MapIndex, anything
   else in the universe (structs, pointers, scalars) gives nil *)
Definition attr_get_item (v : attr_val) (name : bytes) : attr_val :=
  match v with
  | AVMap _ kv => match attr_kv_get kv name with Some x => x | None => AVNil end
  | _ => AVNil
  end.

Inductive attr_access : Type := ADot | AIndex.   (* x.name | x[name] *)

Definition attr_lookup (orc : attr_oracle) (c : attr_cache) (a : attr_access) (v : attr_val) (name : bytes)
  : attr_cache * attr_val :=
  match a with
  | ADot => attr_get_attribute orc c v name
  | AIndex => (c, attr_get_item v name)
  end.

(* a history of earlier lookups, results discarded *)
Definition attr_step : Type := (attr_access * attr_val * bytes)%type.

Definition attr_run (orc : attr_oracle) (hist : list attr_step) (c : attr_cache) : attr_cache :=
  fold_left (fun c s => fst (attr_lookup orc c (fst (fst s)) (snd (fst s)) (snd s))) hist c.

(* the uncached computation *)
Definition attr_resolve (a : attr_access) (v : attr_val) (name : bytes) : attr_val :=
  match a with
  | AIndex => attr_get_item v name
  | ADot =>
      match v with
      | AVNil => AVNil
      | AVMap generic kv =>
          if generic || attr_typed_maps_by_key
          then match attr_kv_get kv name with Some x => x | None => AVNil end
          else AVNil
      | _ =>
          match attr_struct_of v with
          | Some (t, fv) => attr_apply (attr_compute_core t name) t fv
          | None => AVNil
          end
      end
  end.

(* a concrete oracle for the executable driver: evict in map order *)
Definition attr_oracle_front : attr_oracle := fun m => map fst m.

(* run a history and return every answer (driver) *)
Fixpoint attr_run_answers (orc : attr_oracle) (hist : list attr_step) (c : attr_cache) : list attr_val :=
  match hist with
  | [] => []
  | s :: r =>
      let cr := attr_lookup orc c (fst (fst s)) (snd (fst s)) (snd s) in
      snd cr :: attr_run_answers orc r (fst cr)
  end.

Definition attr_cache_len (c : attr_cache) : nat := length (ach_m c).
