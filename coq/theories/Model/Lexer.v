(* Model of the template scanner: zero_alloc_tokenizer.go TokenizeHtmlPreserving (templates up to
   4096 bytes) and TokenizeOptimized with FindNextTag / FindTagEnd (larger templates), at the level of
   outer tokens: literal text, escaped openers and whole tags with their raw content. The inner
   tokenisation of tag contents is a separate layer (ExprLexer.v). Bytes are arbitrary. *)
From Twig Require Import Base.Bytes.

Definition LB : byte := x7b.   (* left brace *)
Definition RB : byte := x7d.   (* right brace *)
Definition PC : byte := x25.   (* percent *)
Definition HS : byte := x23.   (* hash *)
Definition DS : byte := x2d.   (* dash *)
Definition BSL : byte := x5c.  (* backslash *)

Inductive okind := OVarT | OVar | OBlockT | OBlock | OComment.

Definition okind_eqb (a b : okind) : bool :=
  match a, b with
  | OVarT, OVarT | OVar, OVar | OBlockT, OBlockT | OBlock, OBlock | OComment, OComment => true
  | _, _ => false
  end.

Definition pattern (k : okind) : bytes :=
  match k with
  | OVarT => [LB; LB; DS] | OVar => [LB; LB]
  | OBlockT => [LB; PC; DS] | OBlock => [LB; PC] | OComment => [LB; HS]
  end.
Definition kinds := [OVarT; OVar; OBlockT; OBlock; OComment].   (* order of tagPatterns in the Go code *)

Definition closer (k : okind) : bytes :=
  match k with
  | OVarT | OVar => [RB; RB]
  | OBlockT | OBlock => [PC; RB]
  | OComment => [HS; RB]
  end.

Definition open_trim (k : okind) : bool := match k with OVarT | OBlockT => true | _ => false end.

(* ---- FindNextTag (TokenizeOptimized): one left-to-right scan ---- *)
Definition opener_at (s : bytes) : option okind :=
  match s with
  | a :: b :: r =>
      if Byte.eqb a LB then
        if Byte.eqb b LB then
          match r with c :: _ => if Byte.eqb c DS then Some OVarT else Some OVar | [] => Some OVar end
        else if Byte.eqb b PC then
          match r with c :: _ => if Byte.eqb c DS then Some OBlockT else Some OBlock | [] => Some OBlock end
        else if Byte.eqb b HS then Some OComment
        else None
      else None
  | _ => None
  end.

Fixpoint scan (s : bytes) : option (nat * okind) :=      (* position of the opener, its kind *)
  match opener_at s with
  | Some k => Some (0, k)
  | None => match s with
            | [] => None
            | _ :: r => match scan r with Some (i, k) => Some (S i, k) | None => None end
            end
  end.

(* ---- strings.Index ---- *)
Fixpoint index_of (p s : bytes) : option nat :=
  if prefixb p s then Some 0
  else match s with
       | [] => None
       | _ :: r => match index_of p r with Some i => Some (S i) | None => None end
       end.

(* ---- TokenizeHtmlPreserving: strings.Index for each of the five patterns, nearest wins,
        the earlier pattern wins a tie ---- *)
Definition better (best : option (nat * okind)) (k : okind) (s : bytes) : option (nat * okind) :=
  match index_of (pattern k) s with
  | Some i => match best with
              | None => Some (i, k)
              | Some (j, _) => if i <? j then Some (i, k) else best
              end
  | None => best
  end.
Definition nearest (s : bytes) : option (nat * okind) :=
  fold_left (fun best k => better best k s) kinds None.

(* ---- closing delimiter ---- *)
(* small tokenizer: Index of the plain closer and of dash+closer, the earlier wins *)
Definition find_close_small (k : okind) (after : bytes) : option (bytes * bool * bytes) :=
  match k with
  | OComment =>
      match index_of (closer k) after with
      | Some e => Some (firstn e after, false, skipn (e + 2) after)
      | None => None
      end
  | _ =>
      match index_of (closer k) after, index_of (DS :: closer k) after with
      | Some e1, None => Some (firstn e1 after, false, skipn (e1 + 2) after)
      | Some e1, Some e2 =>
          if e1 <? e2 then Some (firstn e1 after, false, skipn (e1 + 2) after)
          else Some (firstn e2 after, true, skipn (e2 + 3) after)
      | None, Some e2 => Some (firstn e2 after, true, skipn (e2 + 3) after)
      | None, None => None
      end
  end.

(* large tokenizer: FindTagEnd, then a look at the byte before the closer *)
Definition find_close_large (k : okind) (after : bytes) : option (bytes * bool * bytes) :=
  match index_of (closer k) after with
  | None => None
  | Some e =>
      match k with
      | OComment => Some (firstn e after, false, skipn (e + 2) after)
      | _ =>
          if (0 <? e) && Byte.eqb (nth (e - 1) after x00) DS
          then Some (firstn (e - 1) after, true, skipn (e + 2) after)
          else Some (firstn e after, false, skipn (e + 2) after)
      end
  end.

(* ---- outer tokens ---- *)
Inductive otok :=
| OText (s : bytes)                                   (* literal text *)
| OEsc (k : okind)                                    (* backslash + opener: emitted as the opener text *)
| OTag (k : okind) (content : bytes) (ctrim : bool).  (* a whole tag: opener kind, raw content, dashed closer *)

Inductive lexres := LexOk (ts : list otok) | LexErr | LexFuel.

Definition escaped_at (i : nat) (r : bytes) : bool :=
  (0 <? i) && Byte.eqb (nth (i - 1) r x00) BSL.

Definition text_tok (t : bytes) : list otok := match t with [] => [] | _ => [OText t] end.

Definition lex_cons (pre : list otok) (rest : lexres) : lexres :=
  match rest with LexOk ts => LexOk (pre ++ ts) | e => e end.

(* the main loop of both tokenizers, parameterised by the opener search and the closer search *)
Fixpoint lex_with (find : bytes -> option (nat * okind))
                  (fclose : okind -> bytes -> option (bytes * bool * bytes))
                  (fuel : nat) (r : bytes) : lexres :=
  match fuel with
  | O => LexFuel
  | S f =>
    match r with
    | [] => LexOk []
    | _ =>
      match find r with
      | None => LexOk [OText r]
      | Some (i, k) =>
          let after := skipn (i + length (pattern k)) r in
          if escaped_at i r then
            lex_cons (text_tok (firstn (i - 1) r) ++ [OEsc k]) (lex_with find fclose f after)
          else
            match fclose k after with
            | None => LexErr
            | Some (content, ctrim, rest) =>
                lex_cons (text_tok (firstn i r) ++ [OTag k content ctrim]) (lex_with find fclose f rest)
            end
      end
    end
  end.

Definition lex_small (s : bytes) : lexres := lex_with nearest find_close_small (S (length s)) s.
Definition lex_large (s : bytes) : lexres := lex_with scan find_close_large (S (length s)) s.

(* parser.go Parse: the tokenizer is chosen by the length of the source (threshold from Gen/Thresholds.v) *)
Definition lex_choose (threshold : nat) (s : bytes) : lexres :=
  if threshold <? length s then lex_large s else lex_small s.

(* re-serialisation of outer tokens: where every source byte went *)
Definition unlex1 (t : otok) : bytes :=
  match t with
  | OText s => s
  | OEsc k => BSL :: pattern k
  | OTag k c tr => pattern k ++ c ++ (if tr then [DS] else []) ++ closer k
  end.
Definition unlex (ts : list otok) : bytes := flat_map unlex1 ts.

(* ---- ApplyWhitespaceControl (trimLeadingWhitespace / trimTrailingWhitespace: space, tab, LF, CR) ---- *)
Definition is_ws (c : byte) : bool :=
  Byte.eqb c x20 || Byte.eqb c x09 || Byte.eqb c x0a || Byte.eqb c x0d.

Fixpoint trim_left (s : bytes) : bytes :=
  match s with
  | c :: r => if is_ws c then trim_left r else s
  | [] => []
  end.
Definition trim_right (s : bytes) : bytes := rev (trim_left (rev s)).

Definition tok_open_trim (t : otok) : bool := match t with OTag k _ _ => open_trim k | _ => false end.
Definition tok_close_trim (t : otok) : bool :=
  match t with OTag OComment _ _ => false | OTag _ _ tr => tr | _ => false end.

(* a text token is trimmed on the right when the next token is a tag with a dashed opener, and on
   the left when the previous token is a tag with a dashed closer; nothing else changes *)
Fixpoint ws_control (prev_trim : bool) (ts : list otok) : list otok :=
  match ts with
  | [] => []
  | OText s :: rest =>
      let s1 := if prev_trim then trim_left s else s in
      let s2 := match rest with t :: _ => if tok_open_trim t then trim_right s1 else s1 | [] => s1 end in
      OText s2 :: ws_control false rest
  | t :: rest => t :: ws_control (tok_close_trim t) rest
  end.

(* the text a template made of literal text, escaped openers and comments only renders to *)
Definition text_out1 (t : otok) : bytes :=
  match t with
  | OText s => s
  | OEsc k => pattern k
  | OTag _ _ _ => []
  end.
