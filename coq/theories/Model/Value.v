(* The value universe of the evaluator model (DESIGN.md Appendix A.1): what a Go context value can be.
   Types only. Lists and maps carry a tag naming the Go representation, because filters and
   indexing distinguish []interface{} from typed slices and map[string]interface{} from typed maps. *)
From Twig Require Import Base.Bytes.

Inductive ltag := LAny | LStrings | LInts | LArray.          (* []interface{} | []string | []int | [n]T *)
Inductive mtag := MAny | MStrStr | MIntStr | MStrInt.        (* map[string]interface{} | map[string]string | map[int]string | map[string]int *)

Inductive value :=
| VNull
| VBool (b : bool)
| VInt (z : Z)                                   (* Go int / int64, and integral float64 results *)
| VStr (s : bytes)
| VList (tag : ltag) (xs : list value)
| VMap (tag : mtag) (kvs : list (value * value))  (* keys are VStr or VInt; iteration order is NOT this order *)
| VStruct (ty : nat) (fields : list (bytes * value))
| VPtr (v : option value)
| VMacro (tpl : bytes) (name : bytes)
| VModule (tpl : bytes)
| VOpaque (id : nat).                            (* funcs, channels: printed as nothing *)
