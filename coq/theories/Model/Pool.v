(* C01 -- the object-pool discipline of package twig as a machine over an abstract heap.

   What is mirrored (files of /repo):
     node_pool.go, node_pool_extensions.go, expr_pool.go   Get<T> = sync.Pool.Get + assignment of the fields,
                                                           Release<T> = clearing of the fields + Put
     parser.go Parser.Parse                                builds the children before their parent, the RootNode last;
                                                           on an error what was built so far is dropped
     twig.go Engine.RegisterString / ParseTemplate / Load / Render / RenderTo / SetCache, Template.RenderTo
     render.go NewRenderContext / Clone / Release          through the generated field sets of Gen/CtxReset.v
     node.go  RootNode / ExtendsNode / IncludeNode / BlockNode / MacroNode / ImportNode .Render, CallMacro
   Which Release calls exist outside the pool files comes from Gen/PoolCalls.v (pool_cfg_gen below);
   the machine follows that configuration, so it mirrors the tree with and without a release of
   cached nodes. pool_cfg_pinned is the originally pinned tree (Template.RenderTo released the root).

   sync.Pool is an explicit reuse oracle: the n-th consultation orc n = None gives a never used
   object, Some i the i-th object currently in the pool of the requested kind (a fresh one when
   there is none). An object that comes out of a pool holds whatever it held; for nodes every
   field is then assigned by Get<T> (Proofs/PoolProofs.v checks this against the generated field
   lists), for render contexts only the generated reset sets are assigned and every other field
   holds the garbage g supplies (None = an arbitrary unknown value: reading it yields PRGarbage).
   POPoison is the environment putting an arbitrary junk object into a pool: other engines, user
   code releasing nodes it built, the hook VerifPoisonPools. POGC is a garbage collection that
   empties the pools.

   Templates are rose trees over a small tag language (see pool_eval); a source is the list of
   top-level trees the parser builds and whether it then succeeds (a failing source still builds
   its trees: that is the half-built tree of a parse error).

   No proofs in this file. *)
From Twig Require Import Base.Bytes Model.Ast Gen.CtxReset Gen.PoolCalls.

(* ------------------------------------------------------------------ trees, sources, heap *)
Inductive pool_tree := PoolT (kind : N) (payload : list N) (children : list pool_tree).

Definition pk_root : N := 0.      (* RootNode: children = the top-level nodes *)
Definition pk_text : N := 1.      (* [k]        literal text  T<k>;                            TextNode *)
Definition pk_var : N := 2.       (* [x; f]     {{ v<x> }} or, f <> 0, {{ v<x>|verifid }}      PrintNode(VariableNode / FilterNode) *)
Definition pk_fail : N := 3.      (* []         {{ 1|verifboom }}  a filter that fails         PrintNode(FilterNode) *)
Definition pk_include : N := 4.   (* [t; ign]   {% include 't<t>' [ignore missing] %}          IncludeNode *)
Definition pk_block : N := 5.     (* [b]        {% block b<b> %} children {% endblock %}       BlockNode *)
Definition pk_extends : N := 6.   (* [t]        {% extends 't<t>' %}                           ExtendsNode *)
Definition pk_macro : N := 7.     (* [m; d; x]  {% macro m<m>(v0) %} children {% endmacro %}, or with d <> 0
                                                {% macro m<m>(v0, v4 = v<x>) %}: a default that is an expression over the caller's variables   MacroNode *)
Definition pk_call : N := 8.      (* [t; m; x]  {% import 't<t>' as q %}{{ q.m<m>(v<x>) }}     ImportNode + PrintNode(FunctionNode) *)
Definition pk_if : N := 9.        (* [x]        {% if v<x> %} children {% endif %}             IfNode *)
Definition pk_lcall : N := 10.    (* [m; x]     {{ m<m>(v<x>) }}: a macro of the template itself         PrintNode(FunctionNode) *)

Record pool_src := mk_psrc { psrc_nodes : list pool_tree; psrc_ok : bool }.
Definition pool_tree_of_src (src : pool_src) : pool_tree := PoolT pk_root [] (psrc_nodes src).

Record pool_cell := mk_pcell { pcl_kind : N; pcl_payload : list N; pcl_children : list nat }.
Definition pool_heap := list (nat * pool_cell).        (* latest binding first *)

Fixpoint pool_hget (h : pool_heap) (i : nat) : option pool_cell :=
  match h with
  | [] => None
  | (j, c) :: r => if Nat.eqb j i then Some c else pool_hget r i
  end.

(* a tree together with the heap ids of its nodes (ghost: what a parse laid out) *)
Inductive pool_itree := PoolIT (id : nat) (kind : N) (payload : list N) (children : list pool_itree).
Definition pool_it_root (it : pool_itree) : nat := match it with PoolIT i _ _ _ => i end.
Fixpoint pool_it_shape (it : pool_itree) : pool_tree :=
  match it with PoolIT _ k pl cs => PoolT k pl (map pool_it_shape cs) end.
Fixpoint pool_it_ids (it : pool_itree) : list nat :=
  match it with PoolIT i _ _ cs => i :: flat_map pool_it_ids cs end.

Fixpoint pool_depth (t : pool_tree) : nat :=
  match t with
  | PoolT _ _ cs => S ((fix go (l : list pool_tree) : nat :=
                          match l with [] => O | x :: r => Nat.max (pool_depth x) (go r) end) cs)
  end.

Fixpoint pool_opt_map {A B} (f : A -> option B) (l : list A) : option (list B) :=
  match l with
  | [] => Some []
  | x :: r => match f x, pool_opt_map f r with
              | Some y, Some ys => Some (y :: ys)
              | _, _ => None
              end
  end.

(* follow the pointers: the tree that the heap holds at id i, to depth fuel *)
Fixpoint pool_read (fuel : nat) (h : pool_heap) (i : nat) : option pool_tree :=
  match fuel with
  | O => None
  | S f =>
    match pool_hget h i with
    | None => None
    | Some c =>
      match pool_opt_map (pool_read f h) (pcl_children c) with
      | Some ts => Some (PoolT (pcl_kind c) (pcl_payload c) ts)
      | None => None
      end
    end
  end.

(* ------------------------------------------------------------------ engine state *)
(* *Template: root node, source, and whether it came from a loader *)
Record pool_tpl := mk_ptpl { pt_root : nat; pt_src : pool_src; pt_loaded : bool }.
Definition pool_key := (nat * N)%type.                 (* (engine, template name) *)
Definition pool_key_eqb (a b : pool_key) : bool := Nat.eqb (fst a) (fst b) && N.eqb (snd a) (snd b).

Fixpoint pool_assoc {A} (l : list (pool_key * A)) (k : pool_key) : option A :=
  match l with
  | [] => None
  | (k', v) :: r => if pool_key_eqb k' k then Some v else pool_assoc r k
  end.

(* the loaders of all engines: fixed content, part of the configuration *)
Definition pool_store := list (pool_key * pool_src).

Record pool_state := mk_pstate {
  pst_cache : list (pool_key * pool_tpl);   (* Engine.templates of every engine; a newer binding shadows *)
  pst_nocache : list nat;                   (* engines whose caching is switched off (SetCache(false)) *)
  pst_heap : pool_heap;                     (* the node objects *)
  pst_pools : list (N * nat);               (* the node pools: (kind, id) *)
  pst_next : nat;                           (* ids from here on were never used *)
  pst_tick : nat                            (* oracle consultations so far *)
}.

Definition pool_init : pool_state := mk_pstate [] [] [] [] O O.

Definition pool_cache_on (s : pool_state) (e : nat) : bool := negb (existsb (Nat.eqb e) (pst_nocache s)).

(* ------------------------------------------------------------------ which releases the Go code performs *)
Record pool_cfg := mk_pcfg {
  pcfg_root_after_render : bool;    (* Template.RenderTo releases the root node of the template it rendered *)
  pcfg_after_include : bool;        (* IncludeNode.Render releases nodes of the included template *)
  pcfg_parse_error : bool;          (* the parser releases what it built when it gives up *)
  pcfg_other : bool                 (* some other function releases a node: not interpreted by the machine *)
}.
Definition pool_cfg_safe : pool_cfg := mk_pcfg false false false false.
Definition pool_cfg_pinned : pool_cfg := mk_pcfg true false false false.

Fixpoint pool_suffixb (suf s : bytes) : bool :=
  if bytes_eqb suf s then true else match s with [] => false | _ :: r => pool_suffixb suf r end.

(* classification of one generated release site by where the released value comes from *)
Inductive pool_site_kind := PSKCtx | PSKBuffer | PSKTokenizer | PSKWrapper | PSKNode.

Definition pool_site_class (site : bytes * bytes * bytes * bool) : pool_site_kind :=
  let '(fn, callee, origin, _) := site in
  if bytes_eqb origin b#"call:NewRenderContext" || bytes_eqb origin b#"method:Clone" then PSKCtx
  else if bytes_eqb origin b#"call:NewStringBuffer" || bytes_eqb origin b#"call:GetBuffer" then PSKBuffer
  else if bytes_eqb callee b#"ReleaseTokenizer" && bytes_eqb origin b#"call:GetTokenizer" then PSKTokenizer
  else if pool_suffixb b#".Release" fn && prefixb b#"Release" callee && prefixb b#"type:*" origin
          && bytes_eqb (b#"type:*" ++ firstn (length fn - 8) fn) origin
          && bytes_eqb (b#"Release" ++ firstn (length fn - 8) fn) callee then PSKWrapper   (* func (n *T) Release() { ReleaseT(n) } *)
  else PSKNode.                                         (* anything else is taken to release a node *)

Definition pool_site_is_node (site : bytes * bytes * bytes * bool) : bool :=
  match pool_site_class site with PSKNode => true | _ => false end.
Definition pool_site_fn (site : bytes * bytes * bytes * bool) : bytes := let '(fn, _, _, _) := site in fn.

Definition pool_cfg_of_sites (sites : list (bytes * bytes * bytes * bool)) : pool_cfg :=
  let ns := filter pool_site_is_node sites in
  let in_fn (f : bytes) := existsb (fun s => bytes_eqb (pool_site_fn s) f) ns in
  mk_pcfg (in_fn b#"Template.RenderTo" || in_fn b#"Template.Render")
          (in_fn b#"IncludeNode.Render")
          (existsb (fun s => prefixb b#"Parser." (pool_site_fn s)) ns)
          (existsb (fun s => negb (bytes_eqb (pool_site_fn s) b#"Template.RenderTo" || bytes_eqb (pool_site_fn s) b#"Template.Render"
                                   || bytes_eqb (pool_site_fn s) b#"IncludeNode.Render" || prefixb b#"Parser." (pool_site_fn s))) ns).

(* the configuration of the working tree *)
Definition pool_cfg_gen : pool_cfg := pool_cfg_of_sites pool_release_sites.

(* ------------------------------------------------------------------ Get / Put *)
(* the i-th entry of kind k, and the pool without it *)
Fixpoint pool_take (k : N) (i : nat) (p : list (N * nat)) : option (nat * list (N * nat)) :=
  match p with
  | [] => None
  | (k', x) :: r =>
    if N.eqb k' k then
      match i with
      | O => Some (x, r)
      | S i' => match pool_take k i' r with Some (y, r') => Some (y, (k', x) :: r') | None => None end
      end
    else match pool_take k i r with Some (y, r') => Some (y, (k', x) :: r') | None => None end
  end.

Definition pool_oracle := nat -> option nat.

Definition pool_get (orc : pool_oracle) (k : N) (s : pool_state) : nat * pool_state :=
  let fresh := (pst_next s,
                mk_pstate (pst_cache s) (pst_nocache s) (pst_heap s) (pst_pools s) (S (pst_next s)) (S (pst_tick s))) in
  match orc (pst_tick s) with
  | None => fresh
  | Some i =>
    match pool_take k i (pst_pools s) with
    | Some (x, p') => (x, mk_pstate (pst_cache s) (pst_nocache s) (pst_heap s) p' (pst_next s) (S (pst_tick s)))
    | None => fresh
    end
  end.

Definition pool_write (s : pool_state) (i : nat) (c : pool_cell) : pool_state :=
  mk_pstate (pst_cache s) (pst_nocache s) ((i, c) :: pst_heap s) (pst_pools s) (pst_next s) (pst_tick s).

(* Release<T>(node): the fields are cleared, the object goes to the pool of its kind *)
Definition pool_put (s : pool_state) (i : nat) : pool_state :=
  match pool_hget (pst_heap s) i with
  | None => s
  | Some c =>
    mk_pstate (pst_cache s) (pst_nocache s) ((i, mk_pcell (pcl_kind c) [] []) :: pst_heap s)
              ((pcl_kind c, i) :: pst_pools s) (pst_next s) (pst_tick s)
  end.

(* the parser: children first, then Get<T> for the node itself with every field assigned *)
Fixpoint pool_build (orc : pool_oracle) (t : pool_tree) (s : pool_state) : pool_itree * pool_state :=
  match t with
  | PoolT k pl cs =>
    let '(its, s1) :=
      (fix go (l : list pool_tree) (s : pool_state) : list pool_itree * pool_state :=
         match l with
         | [] => ([], s)
         | x :: r => let '(it, s') := pool_build orc x s in
                     let '(its, s'') := go r s' in (it :: its, s'')
         end) cs s in
    let '(i, s2) := pool_get orc k s1 in
    (PoolIT i k pl its, pool_write s2 i (mk_pcell k pl (map pool_it_root its)))
  end.

Fixpoint pool_build_list (orc : pool_oracle) (l : list pool_tree) (s : pool_state) : list pool_itree * pool_state :=
  match l with
  | [] => ([], s)
  | x :: r => let '(it, s') := pool_build orc x s in
              let '(its, s'') := pool_build_list orc r s' in (it :: its, s'')
  end.

(* Parser.Parse: Some root on success *)
Definition pool_parse (cfg : pool_cfg) (orc : pool_oracle) (src : pool_src) (s : pool_state) : option pool_itree * pool_state :=
  let '(its, s1) := pool_build_list orc (psrc_nodes src) s in
  if psrc_ok src then
    let '(r, s2) := pool_get orc pk_root s1 in
    (Some (PoolIT r pk_root [] its), pool_write s2 r (mk_pcell pk_root [] (map pool_it_root its)))
  else
    (None, if pcfg_parse_error cfg then fold_left pool_put (map pool_it_root its) s1 else s1).

Definition pool_cache_add (s : pool_state) (key : pool_key) (t : pool_tpl) : pool_state :=
  mk_pstate ((key, t) :: pst_cache s) (pst_nocache s) (pst_heap s) (pst_pools s) (pst_next s) (pst_tick s).

(* ------------------------------------------------------------------ Load *)
Inductive pool_lres :=
| PLOk (nodes : list pool_tree)      (* the template the call hands out, as the tree its nodes form now *)
| PLErr (e : errclass)
| PLBad.                             (* the cached node tree cannot be followed (dangling / too deep) *)

(* what a Load that reads the loaders returns *)
Definition pool_reload_res (st : pool_store) (key : pool_key) : pool_lres :=
  match pool_assoc st key with
  | None => PLErr ENotFound
  | Some src => if psrc_ok src then PLOk (psrc_nodes src) else PLErr EParse
  end.

Definition pool_read_tpl (h : pool_heap) (t : pool_tpl) : pool_lres :=
  match pool_read (pool_depth (pool_tree_of_src (pt_src t))) h (pt_root t) with
  | Some (PoolT _ _ cs) => PLOk cs
  | None => PLBad
  end.

(* Engine.Load, result only (twig.go:210): a registered template is served whatever the settings; a
   loaded one from the map while caching is on (auto-reload is off), otherwise the loaders are read *)
Definition pool_resolve (st : pool_store) (s : pool_state) (e : nat) (n : N) : pool_lres :=
  match pool_assoc (pst_cache s) (e, n) with
  | Some t =>
    if pt_loaded t then
      if pool_cache_on s e then pool_read_tpl (pst_heap s) t else pool_reload_res st (e, n)
    else pool_read_tpl (pst_heap s) t
  | None => pool_reload_res st (e, n)
  end.

(* Engine.Load, effect on the state: a reload parses (taking nodes out of the pools) and stores the
   template when caching is on *)
Definition pool_load_effect (cfg : pool_cfg) (st : pool_store) (orc : pool_oracle) (e : nat) (s : pool_state) (n : N) : pool_state :=
  let reload :=
    match pool_assoc st (e, n) with
    | None => s
    | Some src =>
      match pool_parse cfg orc src s with
      | (Some it, s1) => if pool_cache_on s1 e then pool_cache_add s1 (e, n) (mk_ptpl (pool_it_root it) src true) else s1
      | (None, s1) => s1
      end
    end in
  match pool_assoc (pst_cache s) (e, n) with
  | Some t => if pt_loaded t then (if pool_cache_on s e then s else reload) else s
  | None => reload
  end.

(* ------------------------------------------------------------------ render contexts *)
Inductive pool_fval :=
| FVNil                                                  (* nil, false, 0, an empty map *)
| FVTrue
| FVPtr                                                  (* a live *Environment / *Engine / *Template *)
| FVVars (vs : list (N * option N))                      (* RenderContext.context; Some None = bound to nil *)
| FVParent (chain : list (list (N * option N)))          (* RenderContext.parent: the variables of the ancestors, nearest first *)
| FVChain (defs : list (N * list (list pool_tree))).     (* RenderContext.blockChain: name -> bodies, most derived first *)

(* The fields of RenderContext that rendering reads before it writes them. Hand-maintained; one line per
   field says where the first read on a freshly acquired context is (file:line of the working tree at
   a4cfdb7). C01_acquire_resets_all_read_fields checks this list against the generated reset sets.
     env                 render.go:279 GetVariable (globals), render_filter.go:11 ApplyFilter, node.go:712 ExtendsNode.Render
     context             render.go:274 GetVariable
     blocks              node.go:1508 RootNode.Render (under extending), node.go:745 ExtendsNode.Render, render.go:404 Clone of it
     parentBlocks        node.go:724 ExtendsNode.Render
     macros              render.go:419 GetMacro, node.go:1015 MacroNode.Render (map write), render.go:409 Clone of it
     parent              render.go:286 GetVariable, render.go:424 GetMacro, render.go:309 currentTemplateName
     engine              node.go:676 / 793 / 1218 / 1311 (Extends / Include / Import / FromImport .Render)
     extending           node.go:1499 RootNode.Render
     currentBlock        node.go:628 BlockNode.Render (saved and restored), extension.go:2233 parent()
     sandboxed           render_filter.go:11 ApplyFilter, render.go:471 CallFunction, render.go:695, node.go:714
     lastLoadedTemplate  render.go:310 currentTemplateName, node.go:1142 CallMacro, render.go:364 Clone of it
     blockChain          node.go:1520 RootNode.Render (nil test), node.go:615 BlockNode.Render
     currentDefs         node.go:628 BlockNode.Render (saved and restored), extension.go:2242 parent()
     blockDepth          node.go:628 BlockNode.Render (saved and restored), extension.go:2241 parent()
   Not in the list: inParentCall (assigned by NewRenderContext and Clone, read nowhere). *)
Definition ctx_fields_read_by_render : list bytes :=
  [b#"env"; b#"context"; b#"blocks"; b#"parentBlocks"; b#"macros"; b#"parent"; b#"engine"; b#"extending";
   b#"currentBlock"; b#"sandboxed"; b#"lastLoadedTemplate"; b#"blockChain"; b#"currentDefs"; b#"blockDepth"].

Fixpoint pool_memb (x : bytes) (l : list bytes) : bool :=
  match l with [] => false | y :: r => bytes_eqb y x || pool_memb x r end.

(* a context as rendering sees it: the fields it reads, None = an unknown left-over value *)
Definition pool_ctx := list (bytes * option pool_fval).
Definition pool_garbage := bytes -> option pool_fval.

(* taking an object from renderContextPool and assigning the fields of the reset set *)
Definition pool_acquire (reset : list bytes) (init : bytes -> pool_fval) (g : pool_garbage) : pool_ctx :=
  map (fun f => (f, if pool_memb f reset then Some (init f) else g f)) ctx_fields_read_by_render.

Definition pool_cget (c : pool_ctx) (f : bytes) : option pool_fval :=
  match assoc_bytes c f with Some v => v | None => None end.
Definition pool_cset (c : pool_ctx) (f : bytes) (v : pool_fval) : pool_ctx := (f, Some v) :: c.

(* NewRenderContext(env, context, engine), render.go:74 *)
Definition pool_ctx_new (g : pool_garbage) (vars : list (N * option N)) : pool_ctx :=
  pool_acquire ctx_reset_new
    (fun f => if bytes_eqb f b#"env" || bytes_eqb f b#"engine" then FVPtr
              else if bytes_eqb f b#"context" then FVVars vars else FVNil) g.

Definition pool_vars_of (v : option pool_fval) : list (N * option N) := match v with Some (FVVars vs) => vs | _ => [] end.
Definition pool_chain_of (v : option pool_fval) : list (list (N * option N)) := match v with Some (FVParent ch) => ch | _ => [] end.
Definition pool_defs_of (v : option pool_fval) : list (N * list (list pool_tree)) := match v with Some (FVChain d) => d | _ => [] end.
Definition pool_fv_or_nil (v : option pool_fval) : pool_fval := match v with Some x => x | None => FVNil end.

(* ctx.Clone(), render.go:343: empty variables with the receiver as parent, blocks and macros copied,
   sandbox flag and template inherited *)
Definition pool_ctx_clone (g : pool_garbage) (c : pool_ctx) : pool_ctx :=
  pool_acquire ctx_reset_clone
    (fun f => if bytes_eqb f b#"env" || bytes_eqb f b#"engine" then FVPtr
              else if bytes_eqb f b#"context" then FVVars []
              else if bytes_eqb f b#"parent" then FVParent (pool_vars_of (pool_cget c b#"context") :: pool_chain_of (pool_cget c b#"parent"))
              else if bytes_eqb f b#"sandboxed" then pool_fv_or_nil (pool_cget c b#"sandboxed")
              else if bytes_eqb f b#"lastLoadedTemplate" then pool_fv_or_nil (pool_cget c b#"lastLoadedTemplate")
              else if bytes_eqb f b#"blocks" then pool_fv_or_nil (pool_cget c b#"blocks")
              else if bytes_eqb f b#"macros" then pool_fv_or_nil (pool_cget c b#"macros")
              else FVNil) g.

(* ------------------------------------------------------------------ rendering *)
Inductive pool_atom := PAText (k : N) | PAVal (v : N).
Inductive pool_result :=
| PROut (out : list pool_atom)
| PRErr (e : errclass)
| PRGarbage                  (* a field holding a left-over value was read, or a cached tree could not be followed *)
| PRFuel.
(* result and the template names handed to Engine.Load on the way, in order *)
Definition pool_ev := (pool_result * list N)%type.

(* a then b; b counts only when a succeeded (rendering stops at the first error) *)
Definition pool_seq (a b : pool_ev) : pool_ev :=
  match a with
  | (PROut o1, l1) => match b with
                      | (PROut o2, l2) => (PROut (o1 ++ o2), l1 ++ l2)
                      | (r, l2) => (r, l1 ++ l2)
                      end
  | _ => a
  end.

(* every listed field must hold a known value *)
Fixpoint pool_touch (c : pool_ctx) (fs : list bytes) : bool :=
  match fs with
  | [] => true
  | f :: r => match pool_cget c f with Some _ => pool_touch c r | None => false end
  end.

Fixpoint pool_vlookup (vs : list (N * option N)) (x : N) : option (option N) :=
  match vs with
  | [] => None
  | (y, v) :: r => if N.eqb y x then Some v else pool_vlookup r x
  end.

(* GetVariable (render.go:274): own variables, then the ancestors *)
Fixpoint pool_chain_lookup (ch : list (list (N * option N))) (x : N) : option N :=
  match ch with
  | [] => None
  | vs :: r => match pool_vlookup vs x with Some v => v | None => pool_chain_lookup r x end
  end.
Definition pool_getvar (c : pool_ctx) (x : N) : option N :=
  pool_chain_lookup (pool_vars_of (pool_cget c b#"context") :: pool_chain_of (pool_cget c b#"parent")) x.

Definition pool_pl (pl : list N) (i : nat) : N := nth i pl 0%N.

(* collectBlocks (node.go:1546): every block of the template, also inside blocks and conditions, goes
   behind the definitions of the same name that are already in the chain *)
Fixpoint pool_chain_add (d : list (N * list (list pool_tree))) (b : N) (body : list pool_tree) : list (N * list (list pool_tree)) :=
  match d with
  | [] => [(b, [body])]
  | (b', l) :: r => if N.eqb b' b then (b', l ++ [body]) :: r else (b', l) :: pool_chain_add r b body
  end.
Fixpoint pool_collect (t : pool_tree) (d : list (N * list (list pool_tree))) : list (N * list (list pool_tree)) :=
  match t with
  | PoolT k pl cs =>
    let d1 := if N.eqb k pk_block then pool_chain_add d (pool_pl pl 0) cs else d in
    if N.eqb k pk_block || N.eqb k pk_if then
      (fix go (l : list pool_tree) (d : list (N * list (list pool_tree))) :=
         match l with [] => d | x :: r => go r (pool_collect x d) end) cs d1
    else d1
  end.
Definition pool_collect_all (ns : list pool_tree) (d : list (N * list (list pool_tree))) :=
  fold_left (fun d t => pool_collect t d) ns d.

Fixpoint pool_defs_lookup (d : list (N * list (list pool_tree))) (b : N) : option (list (list pool_tree)) :=
  match d with [] => None | (b', l) :: r => if N.eqb b' b then Some l else pool_defs_lookup r b end.

Fixpoint pool_find_extends (ns : list pool_tree) : option N :=
  match ns with
  | [] => None
  | PoolT k pl _ :: r => match pool_find_extends r with
                         | Some t => Some t                       (* the last extends node wins (node.go:1512) *)
                         | None => if N.eqb k pk_extends then Some (pool_pl pl 0) else None
                         end
  end.

(* the macro node of a name among the top-level nodes of a template: payload and body *)
Fixpoint pool_find_macro (ns : list pool_tree) (m : N) : option (list N * list pool_tree) :=
  match ns with
  | [] => None
  | PoolT k pl cs :: r => match pool_find_macro r m with
                          | Some b => Some b                      (* a later definition overwrites ctx.macros[name] *)
                          | None => if N.eqb k pk_macro && N.eqb (pool_pl pl 0) m then Some (pl, cs) else None
                          end
  end.

(* MacroNode.CallMacro (node.go:1171): a new context whose parent is the caller; the first parameter is bound
   to the argument; the second parameter, when the macro declares one, is not passed by any generated call and is
   bound to its default expression evaluated in the CALLER's context, on every call anew *)
Definition pool_macro_ctx (g0 : pool_garbage) (c : pool_ctx) (mpl : list N) (arg : option N) : pool_ctx :=
  pool_cset (pool_cset (pool_cset
    (pool_ctx_new g0 ((0%N, arg) :: (if N.eqb (pool_pl mpl 1) 0 then [] else [(4%N, pool_getvar c (pool_pl mpl 2))])))
    b#"parent" (FVParent (pool_vars_of (pool_cget c b#"context") :: pool_chain_of (pool_cget c b#"parent"))))
    b#"lastLoadedTemplate" (pool_fv_or_nil (pool_cget c b#"lastLoadedTemplate")))
    b#"sandboxed" (pool_fv_or_nil (pool_cget c b#"sandboxed")).

Definition pool_truthy (v : option N) : bool := match v with Some n => negb (N.eqb n 0) | None => false end.

(* Rendering. root = true: ns are the children of a RootNode and c is the context it is rendered in
   (RootNode.Render, node.go:1492); root = false: ns is a list of nodes rendered one after the other.
   g d supplies the left-over values of a context acquired at fuel level d. fuel bounds the nesting,
   gas the number of nodes visited (so that the machine stays cheap to run in states where a released
   and reused root has made the template map cyclic); the remaining gas is returned. cur is the list of
   top-level nodes of the template the nodes belong to (its macros are what a local macro call sees; with
   root = true it is ns itself). *)
Fixpoint pool_eval (fuel : nat) (rv : N -> pool_lres) (g : nat -> pool_garbage) (root : bool)
                   (c : pool_ctx) (cur ns : list pool_tree) (gas : nat) : pool_ev * nat :=
  match fuel with
  | O => ((PRFuel, []), gas)
  | S f =>
    match gas with
    | O => ((PRFuel, []), O)
    | S gas0 =>
    if root then
      (* extending, blocks, blockChain are read; every block of this template joins the chain *)
      if negb (pool_touch c [b#"extending"; b#"blocks"; b#"blockChain"]) then ((PRGarbage, []), gas0)
      else
        let d := pool_collect_all ns (pool_defs_of (pool_cget c b#"blockChain")) in
        let c1 := pool_cset c b#"blockChain" (FVChain d) in
        match pool_find_extends ns with
        | Some t =>
          (* ExtendsNode.Render, node.go:663 *)
          if negb (pool_touch c1 [b#"engine"; b#"env"; b#"context"; b#"sandboxed"; b#"parent"; b#"parentBlocks"; b#"blocks"]) then ((PRGarbage, []), gas0)
          else
            match rv t with
            | PLErr e => ((PRErr e, [t]), gas0)
            | PLBad => ((PRGarbage, [t]), gas0)
            | PLOk pns =>
              let pc := pool_ctx_new (g f) (pool_vars_of (pool_cget c1 b#"context")) in
              (* parentCtx.parent = ctx.parent (node.go:735): what an including template could see stays visible *)
              let pc := pool_cset (pool_cset (pool_cset (pool_cset (pool_cset pc b#"extending" FVTrue)
                          b#"sandboxed" (pool_fv_or_nil (pool_cget c1 b#"sandboxed")))
                          b#"parent" (pool_fv_or_nil (pool_cget c1 b#"parent")))
                          b#"lastLoadedTemplate" FVPtr) b#"blockChain" (FVChain d) in
              let '(r, gas1) := pool_eval f rv g true pc pns pns gas0 in
              (pool_seq (PROut [], [t]) r, gas1)
            end
        | None => pool_eval f rv g false c1 ns ns gas0
        end
    else
      match ns with
      | [] => ((PROut [], []), gas0)
      | PoolT k pl cs :: rest =>
        let '(this, gas1) :=
          if N.eqb k pk_text then ((PROut [PAText (pool_pl pl 0)], []), gas0)
          else if N.eqb k pk_var then
            (* PrintNode -> GetVariable
            (through the identity filter verifid when the second payload is not 0: ApplyFilter reads the sandbox flag) *)
            if negb (pool_touch c (if N.eqb (pool_pl pl 1) 0 then [b#"context"; b#"env"; b#"parent"]
                                   else [b#"context"; b#"env"; b#"parent"; b#"sandboxed"])) then ((PRGarbage, []), gas0)
            else ((PROut (match pool_getvar c (pool_pl pl 0) with Some v => [PAVal v] | None => [] end), []), gas0)
          else if N.eqb k pk_fail then
            (* ApplyFilter: the sandbox test, then the filter, which fails *)
            if negb (pool_touch c [b#"sandboxed"; b#"env"]) then ((PRGarbage, []), gas0) else ((PRErr EOther, []), gas0)
          else if N.eqb k pk_include then
            (* IncludeNode.Render, node.go:782 *)
            if negb (pool_touch c [b#"context"; b#"env"; b#"parent"; b#"engine"]) then ((PRGarbage, []), gas0)
            else
              match rv (pool_pl pl 0) with
              | PLErr ENotFound => if N.eqb (pool_pl pl 1) 0 then ((PRErr ENotFound, [pool_pl pl 0]), gas0) else ((PROut [], [pool_pl pl 0]), gas0)
              | PLErr e => ((PRErr e, [pool_pl pl 0]), gas0)
              | PLBad => ((PRGarbage, [pool_pl pl 0]), gas0)
              | PLOk ins =>
                if negb (pool_touch c [b#"sandboxed"; b#"lastLoadedTemplate"; b#"blocks"; b#"macros"]) then ((PRGarbage, [pool_pl pl 0]), gas0)
                else
                  let '(r, gas2) := pool_eval f rv g true (pool_cset (pool_ctx_clone (g f) c) b#"lastLoadedTemplate" FVPtr) ins ins gas0 in
                  (pool_seq (PROut [], [pool_pl pl 0]) r, gas2)
              end
          else if N.eqb k pk_block then
            (* BlockNode.Render, node.go:611: the most derived definition of the name *)
            if negb (pool_touch c [b#"blockChain"; b#"currentBlock"; b#"currentDefs"; b#"blockDepth"]) then ((PRGarbage, []), gas0)
            else
              pool_eval f rv g false c cur
                (match pool_defs_lookup (pool_defs_of (pool_cget c b#"blockChain")) (pool_pl pl 0) with
                 | Some (first :: _) => first
                 | _ => cs
                 end) gas0
          else if N.eqb k pk_macro then
            (* MacroNode.Render: ctx.macros[name] = n *)
            if negb (pool_touch c [b#"macros"]) then ((PRGarbage, []), gas0) else ((PROut [], []), gas0)
          else if N.eqb k pk_call then
            (* ImportNode.Render (node.go:1207), then FunctionNode with a module expression and CallMacro (node.go:1138) *)
            if negb (pool_touch c [b#"context"; b#"env"; b#"parent"; b#"engine"; b#"sandboxed"]) then ((PRGarbage, []), gas0)
            else
              match rv (pool_pl pl 0) with
              | PLErr e => ((PRErr e, [pool_pl pl 0]), gas0)
              | PLBad => ((PRGarbage, [pool_pl pl 0]), gas0)
              | PLOk mns =>
                match pool_eval f rv g true (pool_cset (pool_ctx_new (g f) []) b#"lastLoadedTemplate" FVPtr) mns mns gas0 with
                | ((PROut _, l1), gas2) =>                                  (* rendered to io.Discard *)
                  match pool_find_macro mns (pool_pl pl 1) with
                  | None => ((PRErr EOther, pool_pl pl 0 :: l1), gas2)       (* function not found *)
                  | Some (mpl, body) =>
                    if negb (pool_touch c [b#"lastLoadedTemplate"]) then ((PRGarbage, pool_pl pl 0 :: l1), gas2)
                    else
                      (* the macros of the defining template are what the body sees (MacroNode.siblings) *)
                      let '(r, gas3) :=
                        pool_eval f rv g false (pool_macro_ctx (g f) c mpl (pool_getvar c (pool_pl pl 2))) mns body gas2 in
                      (pool_seq (PROut [], pool_pl pl 0 :: l1) r, gas3)
                  end
                | ((r, l1), gas2) => ((r, pool_pl pl 0 :: l1), gas2)
                end
              end
          else if N.eqb k pk_if then
            if negb (pool_touch c [b#"context"; b#"env"; b#"parent"]) then ((PRGarbage, []), gas0)
            else if pool_truthy (pool_getvar c (pool_pl pl 0)) then pool_eval f rv g false c cur cs gas0 else ((PROut [], []), gas0)
          else if N.eqb k pk_lcall then
            (* FunctionNode without module: GetMacro in the context (render.go, the macro call branch), then CallMacro;
               an unknown name ends in CallFunction: function not found *)
            if negb (pool_touch c [b#"context"; b#"env"; b#"parent"; b#"sandboxed"; b#"macros"; b#"lastLoadedTemplate"]) then ((PRGarbage, []), gas0)
            else
              match pool_find_macro cur (pool_pl pl 0) with
              | None => ((PRErr EOther, []), gas0)
              | Some (mpl, body) =>
                pool_eval f rv g false (pool_macro_ctx (g f) c mpl (pool_getvar c (pool_pl pl 1))) cur body gas0
              end
          else ((PROut [], []), gas0)                                       (* extends below the top level, unknown kinds: nothing *)
        in
        match this with
        | (PROut _, _) => let '(r, gas4) := pool_eval f rv g false c cur rest gas1 in (pool_seq this r, gas4)
        | _ => (this, gas1)
        end
      end
    end
  end.

Definition pool_eval_fuel : nat := 400.
Definition pool_eval_gas : nat := 20000.

(* Engine.Render(name, vars): Load, NewRenderContext, lastLoadedTemplate, RootNode.Render *)
Definition pool_render (st : pool_store) (g : nat -> pool_garbage) (s : pool_state) (e : nat) (n : N) (vars : list (N * N)) : pool_ev :=
  match pool_resolve st s e n with
  | PLErr er => (PRErr er, [n])
  | PLBad => (PRGarbage, [n])
  | PLOk ns =>
    let c := pool_cset (pool_ctx_new (g pool_eval_fuel) (map (fun xv => (fst xv, Some (snd xv))) vars)) b#"lastLoadedTemplate" FVPtr in
    pool_seq (PROut [], [n]) (fst (pool_eval pool_eval_fuel (pool_resolve st s e) g true c ns ns pool_eval_gas))
  end.

(* ------------------------------------------------------------------ operations *)
Inductive pool_op :=
| PORegister (e : nat) (n : N) (src : pool_src)      (* Engine.RegisterString *)
| POParse (e : nat) (src : pool_src)                 (* Engine.ParseTemplate: parsed, handed out, not stored *)
| POLoad (e : nat) (n : N)                           (* Engine.Load *)
| PORender (e : nat) (n : N) (vars : list (N * N))   (* Engine.Render; succeeds or fails as the templates say *)
| POToggleCache (e : nat)                            (* Engine.SetCache(!cache) *)
| POGC                                               (* a garbage collection: the pools are emptied *)
| POPoison (k : N) (c : pool_cell).                  (* the environment puts a junk object of kind k into its pool *)
(* Activity on another engine is the same operations with another engine number; the pools and the heap are
   shared by all engines of the process. *)

Inductive pool_obs := POORender (r : pool_result) | POOLoad (r : pool_lres) | POOReg (ok : bool) | POONone.

Definition pool_toggle (l : list nat) (e : nat) : list nat :=
  if existsb (Nat.eqb e) l then filter (fun x => negb (Nat.eqb e x)) l else e :: l.

Definition pool_has_extends (ns : list pool_tree) : bool := match pool_find_extends ns with Some _ => true | None => false end.

(* the root node the template map holds for a name now *)
Definition pool_cached_root (s : pool_state) (e : nat) (n : N) : option nat :=
  match pool_assoc (pst_cache s) (e, n) with Some t => Some (pt_root t) | None => None end.

Definition pool_put_opt (s : pool_state) (r : option nat) : pool_state := match r with Some i => pool_put s i | None => s end.

Definition pool_step (cfg : pool_cfg) (st : pool_store) (orc : pool_oracle) (g : nat -> pool_garbage)
                     (s : pool_state) (o : pool_op) : pool_state * pool_obs :=
  match o with
  | PORegister e n src =>
    match pool_parse cfg orc src s with
    | (Some it, s1) => (pool_cache_add s1 (e, n) (mk_ptpl (pool_it_root it) src false), POOReg true)
    | (None, s1) => (s1, POOReg false)
    end
  | POParse e src => (snd (pool_parse cfg orc src s), POONone)
  | POLoad e n => (pool_load_effect cfg st orc e s n, POOLoad (pool_resolve st s e n))
  | PORender e n vars =>
    let '(r, loads) := pool_render st g s e n vars in
    let s1 := fold_left (pool_load_effect cfg st orc e) loads s in
    (* releases of cached nodes, where the working tree has them *)
    let s2 := if pcfg_after_include cfg
              then fold_left (fun s m => pool_put_opt s (pool_cached_root s e m)) (tl loads) s1 else s1 in
    let s3 := if pcfg_root_after_render cfg
              then match pool_resolve st s e n with
                   | PLOk ns => if pool_has_extends ns then s2 else pool_put_opt s2 (pool_cached_root s2 e n)
                   | _ => s2
                   end
              else s2 in
    (s3, POORender r)
  | POToggleCache e =>
    (mk_pstate (pst_cache s) (pool_toggle (pst_nocache s) e) (pst_heap s) (pst_pools s) (pst_next s) (pst_tick s), POONone)
  | POGC => (mk_pstate (pst_cache s) (pst_nocache s) (pst_heap s) [] (pst_next s) (pst_tick s), POONone)
  | POPoison k c =>
    (mk_pstate (pst_cache s) (pst_nocache s) ((pst_next s, c) :: pst_heap s) ((k, pst_next s) :: pst_pools s)
               (S (pst_next s)) (pst_tick s), POONone)
  end.

Definition pool_run_from (cfg : pool_cfg) (st : pool_store) (orc : pool_oracle) (g : nat -> pool_garbage)
                         (s : pool_state) (ops : list pool_op) : pool_state :=
  fold_left (fun s o => fst (pool_step cfg st orc g s o)) ops s.
Definition pool_run cfg st orc g ops := pool_run_from cfg st orc g pool_init ops.

Fixpoint pool_trace_from (cfg : pool_cfg) (st : pool_store) (orc : pool_oracle) (g : nat -> pool_garbage)
                         (s : pool_state) (ops : list pool_op) : list pool_obs :=
  match ops with
  | [] => []
  | o :: r => let '(s', ob) := pool_step cfg st orc g s o in ob :: pool_trace_from cfg st orc g s' r
  end.

(* what a freshly created engine is given: the registrations and the cache setting *)
Definition pool_is_config (o : pool_op) : bool :=
  match o with PORegister _ _ _ | POToggleCache _ => true | _ => false end.
Definition pool_config_ops (ops : list pool_op) : list pool_op := filter pool_is_config ops.

(* a fresh process: nothing is ever reused, acquired contexts hold nothing known *)
Definition pool_orc_fresh : pool_oracle := fun _ => None.
Definition pool_garbage_none : nat -> pool_garbage := fun _ _ => None.

(* the last successful registration of a name *)
Fixpoint pool_last_reg (ops : list pool_op) (key : pool_key) : option pool_src :=
  match ops with
  | [] => None
  | o :: r =>
    match pool_last_reg r key with
    | Some src => Some src
    | None => match o with
              | PORegister e n src => if pool_key_eqb (e, n) key && psrc_ok src then Some src else None
              | _ => None
              end
    end
  end.

(* what Load returns on an engine that holds exactly the registrations regs and the loaders st *)
Definition pool_spec_resolve (st : pool_store) (reg : pool_key -> option pool_src) (e : nat) (n : N) : pool_lres :=
  match reg (e, n) with
  | Some src => PLOk (psrc_nodes src)
  | None => pool_reload_res st (e, n)
  end.

(* pooled struct types: a field that neither the acquisition function nor the release function assigns *)
Definition pool_uncovered_fields (nt : bytes * bytes * list bytes * list bytes * list bytes) : list (bytes * bytes) :=
  let '(_, ty, fields, getw, relw) := nt in
  map (fun f => (ty, f)) (filter (fun f => negb (pool_memb f getw) && negb (pool_memb f relw)) fields).
(* a field only the release function takes care of (the acquisition function relies on it) *)
Definition pool_release_only_fields (nt : bytes * bytes * list bytes * list bytes * list bytes) : list (bytes * bytes) :=
  let '(_, ty, fields, getw, relw) := nt in
  map (fun f => (ty, f)) (filter (fun f => negb (pool_memb f getw)) fields).
