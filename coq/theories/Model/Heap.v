(* C18 -- the heap model: rendering never modifies the data of the caller.

   Values live in a heap of objects: Go maps, backing arrays of slices, and cells that pointers point to.
   A slice value is a WINDOW (array, offset, len, cap) over a backing array, exactly as in Go, so that
   two slice values can share storage and an append within capacity writes into storage that another
   slice value can see. Struct values and Go array values are copied when they are put into an
   interface, so they are values here (their fields may again hold references).

   The heap has two regions. hs_old is the heap of the caller as it is when Render is entered: the
   context map and everything reachable from it. hs_new holds what this render allocates (its own
   variable maps, the loop maps, every filter result that is a fresh object). Allocation always goes
   to hs_new; READS and WRITES go to whichever region the location names. Nothing in the types stops
   a write to hs_old: hp_put (HlOld n) o modifies the data of the caller, and a model of a filter
   that sorted in place or of a SetVariable that wrote into the map of the caller would do exactly that.
   The theorems of Properties/C18.v say that the model of the code as it is now never does.
   Addresses of fresh objects are not observable by a Go program, which is why the fresh region can be
   a separate name space; the caller cannot reach it after the render (Render returns a string).

   Every filter and every writing node is modelled with the allocations and writes the Go code performs
   NOW (extension.go, render.go, node.go), including which results alias their input:
     slice on []interface{}     what Gen/FilterWrites.v reads from the code: a private copy (make + copy) since the
                                repair of filterSlice, a window v[start:end] of the input array before it
                                (fw_slice_window; the window had its capacity run to the end of the input capacity)
     slice on typed slices      reflect.MakeSlice + element copies: fresh ; a Go array gives a fresh slice of its element type
     sort                       make + copy + sort of the copy: fresh (numbers by value, everything else by text) ;
                                an empty []interface{} is returned itself
     reverse                    make + fill: fresh
     merge                      lists: make + append, fresh ; maps of any type: a fresh map[string]interface{} ;
                                on a value that is no slice, array or map: the input itself
     keys, split, range         fresh
     default, raw               the input (or the argument) itself
     first, last, x[i], x.f     the element itself (a nested map or slice is shared, not copied)
   The text of a pointer is the text of what it points to (textWithoutAddress).
   No proofs in this file. *)
From Coq Require Import ZifyBool ZifyNat ZifyN.
From Twig Require Import Base.Bytes Model.Ast Model.Value Gen.FilterWrites.

(* ------------------------------------------------------------------------------------------------ *)
(* locations, values, objects, state                                                                *)

Inductive hploc := HlOld (n : nat) | HlNew (n : nat).

Inductive hpval :=
| HvNull
| HvBool (b : bool)
| HvInt (z : Z)
| HvStr (s : bytes)
| HvSlice (tag : ltag) (arr : hploc) (off len cap : nat)  (* elements off .. off+len-1 of the array; capacity off .. off+cap-1 *)
| HvMap (tag : mtag) (m : hploc)
| HvStruct (ty : nat) (fields : list (bytes * hpval))     (* struct value (copied into the interface) *)
| HvArr (tag : ltag) (xs : list hpval)                    (* Go array value [n]T (copied into the interface) *)
| HvPtr (p : hploc).                                      (* pointer to a cell *)

Inductive hpobj :=
| HoArr (xs : list hpval)                 (* backing array; its length is the capacity of the allocation *)
| HoMap (kvs : list (hpval * hpval))      (* Go map; keys are HvStr or HvInt; at most one entry per key *)
| HoCell (v : hpval).                     (* what a pointer points to: a struct, a slice header, a map reference *)

Record hpstate := mk_hpstate { hs_old : list hpobj; hs_new : list hpobj }.

Definition hpM (A : Type) := hpstate -> outcome (A * hpstate).

Definition hp_ret {A} (a : A) : hpM A := fun st => Ok (a, st).
Definition hp_fail {A} (e : errclass) : hpM A := fun _ => Err e.
Definition hp_unmodelled {A} : hpM A := fun _ => Unmodelled.
Definition hp_nofuel {A} : hpM A := fun _ => OutOfFuel.
Definition hp_bind {A B} (m : hpM A) (f : A -> hpM B) : hpM B :=
  fun st => match m st with
            | Ok (a, st') => f a st'
            | Err e => Err e
            | OutOfFuel => OutOfFuel
            | Unmodelled => Unmodelled
            end.
Notation "'hdo' x <- m ; f" := (hp_bind m (fun x => f)) (at level 200, x name, m at level 100, f at level 200).
Notation "'hdo' ' p <- m ; f" := (hp_bind m (fun x => match x with p => f end)) (at level 200, p pattern, m at level 100, f at level 200).

(* computations that only READ the heap: the state is handed on unchanged *)
Definition hp_reader {A} (f : hpstate -> outcome A) : hpM A :=
  fun st => match f st with Ok a => Ok (a, st) | Err e => Err e | OutOfFuel => OutOfFuel | Unmodelled => Unmodelled end.
Definition hp_reado {A} (f : hpstate -> option A) : hpM A :=
  fun st => match f st with Some a => Ok (a, st) | None => Unmodelled end.

(* ---- the three primitives ---- *)
Definition hp_get (st : hpstate) (l : hploc) : option hpobj :=
  match l with HlOld n => nth_error (hs_old st) n | HlNew n => nth_error (hs_new st) n end.

Fixpoint hp_list_set {A} (l : list A) (n : nat) (a : A) : list A :=
  match l, n with
  | [], _ => []
  | _ :: r, O => a :: r
  | x :: r, S n' => x :: hp_list_set r n' a
  end.

(* a write: to the region the location names *)
Definition hp_put (l : hploc) (o : hpobj) : hpM unit :=
  fun st => match l with
            | HlOld n => Ok (tt, mk_hpstate (hp_list_set (hs_old st) n o) (hs_new st))
            | HlNew n => Ok (tt, mk_hpstate (hs_old st) (hp_list_set (hs_new st) n o))
            end.

(* allocation: always in the fresh region; returns the index, the location is HlNew of it *)
Definition hp_alloc (o : hpobj) : hpM nat :=
  fun st => Ok (length (hs_new st), mk_hpstate (hs_old st) (hs_new st ++ [o])).

Definition hp_read (l : hploc) : hpM hpobj := hp_reado (fun st => hp_get st l).

(* make + fill: allocate an object with its zero content, then write the final content into it
   (make([]T, n) followed by the loop or copy or sort that fills it). The writes go to the new object. *)
Fixpoint hp_puts (l : hploc) (ws : list hpobj) : hpM unit :=
  match ws with
  | [] => hp_ret tt
  | w :: r => hdo _ <- hp_put l w; hp_puts l r
  end.
Definition hp_alloc_fill (zero : hpobj) (writes : list hpobj) : hpM nat :=
  hdo n <- hp_alloc zero; hdo _ <- hp_puts (HlNew n) writes; hp_ret n.

(* ------------------------------------------------------------------------------------------------ *)
(* small pure helpers                                                                               *)

Definition hp_digit (d : N) : byte := match Byte.of_N (48 + d) with Some b => b | None => x30 end.
Fixpoint hp_digits (fu : nat) (n : N) (acc : bytes) : bytes :=
  match fu with
  | O => acc
  | S fu' => let acc' := hp_digit (N.modulo n 10) :: acc in
             if N.eqb (N.div n 10) 0 then acc' else hp_digits fu' (N.div n 10) acc'
  end.
Definition hp_itoa (z : Z) : bytes :=
  match z with
  | Z0 => [x30]
  | Zpos p => hp_digits (S (N.size_nat (Npos p))) (Npos p) []
  | Zneg p => x2d :: hp_digits (S (N.size_nat (Npos p))) (Npos p) []
  end.
Definition hp_ntoa (n : nat) : bytes := hp_itoa (Z.of_nat n).

Fixpoint hp_bytes_ltb (a b : bytes) : bool :=
  match a, b with
  | [], [] => false
  | [], _ :: _ => true
  | _ :: _, [] => false
  | x :: a', y :: b' => if N.ltb (Byte.to_N x) (Byte.to_N y) then true
                        else if N.ltb (Byte.to_N y) (Byte.to_N x) then false else hp_bytes_ltb a' b'
  end.

Fixpoint hp_concat (sep : bytes) (l : list bytes) : bytes :=
  match l with
  | [] => []
  | [x] => x
  | x :: r => x ++ sep ++ hp_concat sep r
  end.

(* stable insertion sort by a byte-string key (sort.Strings, and sort.Slice / SliceStable with the
   comparison toString(a) < toString(b); ties keep their order, see the assumptions in props/C18.json) *)
Fixpoint hp_insert_by {A} (k : bytes) (a : A) (l : list (bytes * A)) : list (bytes * A) :=
  match l with
  | [] => [(k, a)]
  | (k', a') :: r => if hp_bytes_ltb k' k then (k', a') :: hp_insert_by k a r else (k, a) :: l
  end.
Fixpoint hp_sort_by {A} (l : list (bytes * A)) : list (bytes * A) :=
  match l with
  | [] => []
  | (k, a) :: r => hp_insert_by k a (hp_sort_by r)
  end.
(* the head is inserted before the first element that is not smaller: equal keys keep their order *)
Definition hp_stable_sort {A} (l : list (bytes * A)) : list (bytes * A) := hp_sort_by l.

(* stable insertion sort by an integer key (sort.Ints; sort.SliceStable by numberValue on lists of numbers) *)
Fixpoint hp_insert_z {A} (k : Z) (a : A) (l : list (Z * A)) : list (Z * A) :=
  match l with
  | [] => [(k, a)]
  | (k', a') :: r => if Z.ltb k' k then (k', a') :: hp_insert_z k a r else (k, a) :: l
  end.
Fixpoint hp_sort_z {A} (l : list (Z * A)) : list (Z * A) :=
  match l with
  | [] => []
  | (k, a) :: r => hp_insert_z k a (hp_sort_z r)
  end.

Definition hp_ltag_eqb (a b : ltag) : bool :=
  match a, b with LAny, LAny | LStrings, LStrings | LInts, LInts | LArray, LArray => true | _, _ => false end.
Definition hp_mtag_eqb (a b : mtag) : bool :=
  match a, b with MAny, MAny | MStrStr, MStrStr | MIntStr, MIntStr | MStrInt, MStrInt => true | _, _ => false end.

Definition hp_is_upper (c : byte) : bool := N.leb 65 (Byte.to_N c) && N.leb (Byte.to_N c) 90.
Definition hp_is_lower (c : byte) : bool := N.leb 97 (Byte.to_N c) && N.leb (Byte.to_N c) 122.
Definition hp_is_ascii (c : byte) : bool := N.ltb (Byte.to_N c) 128.
Definition hp_to_upper (c : byte) : byte := if hp_is_lower c then match Byte.of_N (Byte.to_N c - 32) with Some b => b | None => c end else c.
Definition hp_to_lower (c : byte) : byte := if hp_is_upper c then match Byte.of_N (Byte.to_N c + 32) with Some b => b | None => c end else c.

(* scalar keys of maps *)
Definition hp_key_eqb (a b : hpval) : bool :=
  match a, b with
  | HvStr x, HvStr y => bytes_eqb x y
  | HvInt x, HvInt y => Z.eqb x y
  | _, _ => false
  end.
Fixpoint hp_map_find (kvs : list (hpval * hpval)) (k : hpval) : option hpval :=
  match kvs with
  | [] => None
  | (k', v) :: r => if hp_key_eqb k' k then Some v else hp_map_find r k
  end.
Fixpoint hp_map_set (kvs : list (hpval * hpval)) (k v : hpval) : list (hpval * hpval) :=
  match kvs with
  | [] => [(k, v)]
  | (k', v') :: r => if hp_key_eqb k' k then (k, v) :: r else (k', v') :: hp_map_set r k v
  end.
Definition hp_map_set_all (kvs add : list (hpval * hpval)) : list (hpval * hpval) :=
  fold_left (fun acc kv => hp_map_set acc (fst kv) (snd kv)) add kvs.

Definition hp_key_string (k : hpval) : option bytes :=
  match k with HvStr s => Some s | HvInt z => Some (hp_itoa z) | _ => None end.

(* the keys of a map in the order of sortedMapKeys: by their text, stable *)
Fixpoint hp_keyed (kvs : list (hpval * hpval)) : option (list (bytes * (hpval * hpval))) :=
  match kvs with
  | [] => Some []
  | (k, v) :: r => match hp_key_string k, hp_keyed r with
                   | Some s, Some l => Some ((s, (k, v)) :: l)
                   | _, _ => None
                   end
  end.
Definition hp_sorted_entries (kvs : list (hpval * hpval)) : option (list (hpval * hpval)) :=
  match hp_keyed kvs with Some l => Some (map snd (hp_stable_sort l)) | None => None end.

(* ------------------------------------------------------------------------------------------------ *)
(* reading values                                                                                   *)

Definition hp_window (st : hpstate) (arr : hploc) (off len : nat) : option (list hpval) :=
  match hp_get st arr with
  | Some (HoArr xs) => if Nat.leb (off + len) (length xs) then Some (firstn len (skipn off xs)) else None
  | _ => None
  end.

Definition hp_map_entries (st : hpstate) (m : hploc) : option (list (hpval * hpval)) :=
  match hp_get st m with Some (HoMap kvs) => Some kvs | _ => None end.

(* the elements of a slice or array value, None for anything else *)
Definition hp_elems (st : hpstate) (v : hpval) : option (list hpval) :=
  match v with
  | HvSlice _ arr off len _ => hp_window st arr off len
  | HvArr _ xs => Some xs
  | _ => None
  end.

Fixpoint hp_opt_all {A} (l : list (option A)) : option (list A) :=
  match l with
  | [] => Some []
  | Some a :: r => match hp_opt_all r with Some r' => Some (a :: r') | None => None end
  | None :: _ => None
  end.

(* toString of a value (top = true) and fmt %v of a value nested in a collection (top = false, fmt/print.go printValue) *)
Fixpoint hp_fmtv (fu : nat) (st : hpstate) (top : bool) (v : hpval) : option bytes :=
  match fu with
  | O => None
  | S fu' =>
    let sub := hp_fmtv fu' st false in
    let seq (xs : list hpval) : option bytes :=
      match hp_opt_all (map sub xs) with Some l => Some (x5b :: hp_concat [x20] l ++ [x5d]) | None => None end in
    match v with
    | HvNull => Some (if top then [] else b#"<nil>")
    | HvBool b => Some (if b then b#"true" else b#"false")
    | HvInt z => Some (hp_itoa z)
    | HvStr s => Some s
    | HvSlice _ arr off len _ => match hp_window st arr off len with Some xs => seq xs | None => None end
    | HvArr _ xs => seq xs
    | HvMap _ m =>
        match hp_map_entries st m with
        | Some kvs =>
            match hp_sorted_entries kvs with
            | Some es =>
                match hp_opt_all (map (fun kv => match sub (fst kv), sub (snd kv) with
                                                 | Some a, Some b => Some (a ++ x3a :: b)
                                                 | _, _ => None end) es) with
                | Some l => Some (b#"map[" ++ hp_concat [x20] l ++ [x5d])
                | None => None
                end
            | None => None
            end
        | None => None
        end
    | HvStruct _ fs =>
        match hp_opt_all (map (fun f => sub (snd f)) fs) with
        | Some l => Some (x7b :: hp_concat [x20] l ++ [x7d])
        | None => None
        end
    | HvPtr p =>
        (* textWithoutAddress: a pointer prints what it points to (toString of the pointee); a pointer nested in a
           collection is printed by fmt as an address: outside the model *)
        if top then
          match hp_get st p with
          | Some (HoCell c) => hp_fmtv fu' st true c
          | _ => None
          end
        else None
    end
  end.

(* numeric map keys are ordered by value by fmt, by text by sortedMapKeys: the model prints maps only when
   both orders agree, which the generator guarantees by using one-digit integer keys *)

Definition hp_fmt_fuel := 12.

(* ToString / toString: the text a value is printed or joined as *)
Definition hp_tostring (st : hpstate) (v : hpval) : option bytes := hp_fmtv hp_fmt_fuel st true v.

(* number of code points of a valid UTF-8 string: bytes that are not continuation bytes *)
Definition hp_rune_count (s : bytes) : nat :=
  length (filter (fun c => negb (N.leb 128 (Byte.to_N c) && N.ltb (Byte.to_N c) 192)) s).

Definition hp_all_ascii (s : bytes) : bool := forallb hp_is_ascii s.

(* reflect Len of collections, rune count of strings *)
Definition hp_length (st : hpstate) (v : hpval) : option nat :=
  match v with
  | HvStr s => Some (hp_rune_count s)
  | HvSlice _ _ _ len _ => Some len
  | HvArr _ xs => Some (length xs)
  | HvMap _ m => match hp_map_entries st m with Some kvs => Some (length kvs) | None => None end
  | _ => None
  end.

(* RenderContext.toBool *)
Definition hp_truthy (st : hpstate) (v : hpval) : option bool :=
  match v with
  | HvNull => Some false
  | HvBool b => Some b
  | HvInt z => Some (negb (Z.eqb z 0))
  | HvStr s => Some (match s with [] => false | _ => true end)
  | HvSlice _ _ _ len _ => Some (negb (Nat.eqb len 0))
  | HvArr _ xs => Some (match xs with [] => false | _ => true end)
  | HvMap _ m => match hp_map_entries st m with Some kvs => Some (match kvs with [] => false | _ => true end) | None => None end
  | HvStruct _ _ => Some true
  | HvPtr _ => Some true
  end.

(* isEmptyValue: nil, the empty string, false and empty collections; a number is never empty *)
Definition hp_is_empty (st : hpstate) (v : hpval) : option bool :=
  match v with
  | HvNull => Some true
  | HvBool b => Some (negb b)
  | HvInt _ => Some false
  | HvStr s => Some (match s with [] => true | _ => false end)
  | HvSlice _ _ _ len _ => Some (Nat.eqb len 0)
  | HvArr _ xs => Some (match xs with [] => true | _ => false end)
  | HvMap _ m => match hp_map_entries st m with Some kvs => Some (match kvs with [] => true | _ => false end) | None => None end
  | HvStruct _ _ => Some false
  | HvPtr _ => Some false
  end.

(* ------------------------------------------------------------------------------------------------ *)
(* allocation of fresh collections                                                                  *)

Definition hp_zero_of (t : ltag) : hpval :=
  match t with LStrings => HvStr [] | LInts => HvInt 0 | _ => HvNull end.

(* make([]T, n) then fill: the result is a full window over the new array *)
Definition hp_new_slice (t : ltag) (xs : list hpval) : hpM hpval :=
  hdo n <- hp_alloc_fill (HoArr (repeat (hp_zero_of t) (length xs))) [HoArr xs];
  hp_ret (HvSlice t (HlNew n) 0 (length xs) (length xs)).

(* a slice literal or an append-grown slice: one allocation that already has its content *)
Definition hp_lit_slice (t : ltag) (xs : list hpval) : hpM hpval :=
  hdo n <- hp_alloc (HoArr xs);
  hp_ret (HvSlice t (HlNew n) 0 (length xs) (length xs)).

(* make(map) then the insertions *)
Definition hp_new_map (t : mtag) (kvs : list (hpval * hpval)) : hpM hpval :=
  hdo n <- hp_alloc_fill (HoMap []) [HoMap kvs];
  hp_ret (HvMap t (HlNew n)).

(* ------------------------------------------------------------------------------------------------ *)
(* the built-in filters (extension.go), with their allocations, writes and aliasing                  *)

Definition hp_arg_int (v : hpval) : option Z := match v with HvInt z => Some z | _ => None end.

(* filterDefault *)
Definition hp_f_default (v : hpval) (args : list hpval) : hpM hpval :=
  match args with
  | [] => hp_ret v                                  (* the input itself *)
  | d :: _ => hp_reader (fun st => match hp_is_empty st v with
                                   | Some true => Ok d        (* the argument itself *)
                                   | Some false => Ok v       (* the input itself *)
                                   | None => Unmodelled
                                   end)
  end.

(* filterLength *)
Definition hp_length_of (st : hpstate) (v : hpval) : outcome hpval :=
  match v with
  | HvNull => Ok (HvInt 0)
  | _ => match hp_length st v with
         | Some n => Ok (HvInt (Z.of_nat n))
         | None => match v with HvMap _ _ => Unmodelled | _ => Err EOther end
         end
  end.
Definition hp_f_length (v : hpval) : hpM hpval := hp_reader (fun st => hp_length_of st v).

(* filterJoin: builds a string; reads only *)
Definition hp_f_join (v : hpval) (args : list hpval) : hpM hpval :=
  hp_reader (fun st =>
    let sep := match args with HvStr d :: _ => d | _ => [x20] end in
    match v with
    | HvNull => Ok (HvStr [])
    | _ => match hp_elems st v with
           | Some xs => match hp_opt_all (map (hp_tostring st) xs) with
                        | Some l => Ok (HvStr (hp_concat sep l))
                        | None => Unmodelled
                        end
           | None => match v with
                     | HvSlice _ _ _ _ _ => Unmodelled
                     | _ => match hp_tostring st v with Some s => Ok (HvStr s) | None => Unmodelled end
                     end
           end
    end).

(* strings.Split with a one-byte separator *)
Fixpoint hp_split_on (c : byte) (s : bytes) (cur : bytes) : list bytes :=
  match s with
  | [] => [rev cur]
  | x :: r => if Byte.eqb x c then rev cur :: hp_split_on c r [] else hp_split_on c r (x :: cur)
  end.

(* filterSplit: a fresh []string *)
Definition hp_f_split (v : hpval) (args : list hpval) : hpM hpval :=
  match v, args with
  | HvStr s, [HvStr [c]] => hp_lit_slice LStrings (map HvStr (hp_split_on c s []))
  | HvStr s, [] => hp_lit_slice LStrings (map HvStr (hp_split_on x20 s []))
  | _, _ => hp_unmodelled
  end.

(* filterFirst: the element itself *)
Definition hp_f_first (v : hpval) : hpM hpval :=
  hp_reader (fun st =>
    match v with
    | HvNull => Ok HvNull
    | HvStr [] => Ok (HvStr [])
    | HvStr (c :: _) => if hp_is_ascii c then Ok (HvStr [c]) else Unmodelled
    | HvSlice _ _ _ _ _ | HvArr _ _ =>
        match hp_elems st v with
        | Some [] => Ok HvNull
        | Some (x :: _) => Ok x
        | None => Unmodelled
        end
    | HvMap _ m =>
        (* every map type reaches the reflection branch: the value under the smallest key *)
        match hp_map_entries st m with
        | Some kvs => match hp_sorted_entries kvs with
                      | Some [] => Ok HvNull
                      | Some ((_, x) :: _) => Ok x
                      | None => Unmodelled
                      end
        | None => Unmodelled
        end
    | _ => Err EOther
    end).

(* filterLast: the element itself; maps are an error *)
Definition hp_f_last (v : hpval) : hpM hpval :=
  hp_reader (fun st =>
    match v with
    | HvNull => Ok HvNull
    | HvStr s => match rev s with c :: _ => if hp_is_ascii c then Ok (HvStr [c]) else Unmodelled | [] => Ok (HvStr []) end
    | HvSlice _ _ _ _ _ | HvArr _ _ =>
        match hp_elems st v with
        | Some xs => match rev xs with [] => Ok HvNull | x :: _ => Ok x end
        | None => Unmodelled
        end
    | _ => Err EOther
    end).

(* filterReverse: make + fill for every slice type; a Go array gives a slice of its element type *)
Definition hp_f_reverse (v : hpval) : hpM hpval :=
  match v with
  | HvNull => hp_ret HvNull
  | HvStr s => if hp_all_ascii s then hp_ret (HvStr (rev s)) else hp_unmodelled
  | HvSlice t arr off len _ =>
      hdo xs <- hp_reado (fun st => hp_window st arr off len);
      hp_new_slice t (rev xs)
  | HvArr t xs => hp_new_slice t (rev xs)
  | _ => hp_fail EOther
  end.

(* the index arithmetic of filterSlice: start and optional length against a count *)
Definition hp_slice_bounds (count : nat) (start : Z) (len : option Z) : option (nat * nat) :=
  let c := Z.of_nat count in
  let s0 := if Z.ltb start 0 then (c + start)%Z else start in
  let s := if Z.ltb s0 0 then 0%Z else s0 in
  if Z.leb c s then None
  else
    let e := match len with
             | None => c
             | Some l => if Z.leb 0 l then Z.min (s + l)%Z c else Z.max (c + l)%Z s
             end in
    Some (Z.to_nat s, Z.to_nat e).

(* filterSlice. window = what Gen/FilterWrites.v read from the code for the []interface{} case. *)
Definition hp_f_slice (window : bool) (v : hpval) (args : list hpval) : hpM hpval :=
  match v with
  | HvNull => hp_ret HvNull
  | _ =>
    match args with
    | [] => hp_fail EOther
    | a0 :: rest =>
      match hp_arg_int a0, (match rest with [] => Some None | HvNull :: _ => Some None | HvInt l :: _ => Some (Some l) | _ => None end) with
      | Some start, Some olen =>
        match v with
        | HvStr s =>
            if hp_all_ascii s then
              match hp_slice_bounds (length s) start olen with
              | None => hp_ret (HvStr [])
              | Some (a, b) => hp_ret (HvStr (firstn (b - a) (skipn a s)))
              end
            else hp_unmodelled
        | HvSlice LAny arr off len cap =>
            match hp_slice_bounds len start olen with
            | None => hp_lit_slice LAny []                      (* []interface{}{} *)
            | Some (a, b) =>
                if window then hp_ret (HvSlice LAny arr (off + a) (b - a) (cap - a))     (* v[start:end] *)
                else
                  hdo xs <- hp_reado (fun st => hp_window st arr (off + a) (b - a));
                  hp_new_slice LAny xs
            end
        | HvSlice t arr off len _ =>
            match hp_slice_bounds len start olen with
            | None => hp_lit_slice t []
            | Some (a, b) =>
                hdo xs <- hp_reado (fun st => hp_window st arr (off + a) (b - a));
                hp_new_slice t xs                                (* reflect.MakeSlice + Set of every element *)
            end
        | HvArr t xs =>
            match hp_slice_bounds (length xs) start olen with
            | None => hp_lit_slice t []
            | Some (a, b) => hp_new_slice t (firstn (b - a) (skipn a xs))
            end
        | _ => hp_fail EOther
        end
      | _, _ => hp_unmodelled
      end
    end
  end.

(* the sort key of an element: its text *)
Definition hp_sort_keys (st : hpstate) (xs : list hpval) : option (list (bytes * hpval)) :=
  hp_opt_all (map (fun x => match hp_tostring st x with Some s => Some (s, x) | None => None end) xs).

(* allNumbers / numberValue: a list whose elements are all integers is ordered by value *)
Fixpoint hp_num_keys (xs : list hpval) : option (list (Z * hpval)) :=
  match xs with
  | [] => Some []
  | HvInt z :: r => match hp_num_keys r with Some l => Some ((z, HvInt z) :: l) | None => None end
  | _ :: _ => None
  end.

(* the order filterSort gives: by value for a list of numbers, by text otherwise (sort.Slice by text is modelled as stable) *)
Definition hp_sorted (st : hpstate) (xs : list hpval) : option (list hpval) :=
  match hp_num_keys xs with
  | Some l => Some (map snd (hp_sort_z l))
  | None => match hp_sort_keys st xs with Some l => Some (map snd (hp_stable_sort l)) | None => None end
  end.

(* filterSort. []string and []int: make, copy, sort, then a second make for the []interface{} that is returned.
   []interface{}: make, copy, sort. Go arrays (reflection): a new slice of the element type, filled, sorted, returned as it is. *)
Definition hp_f_sort (v : hpval) : hpM hpval :=
  match v with
  | HvNull => hp_ret HvNull
  | HvSlice LAny _ _ O _ => hp_ret v                                   (* len(v) == 0: return v *)
  | HvSlice t arr off len _ =>
      hdo xs <- hp_reado (fun st => hp_window st arr off len);
      hdo sorted <- hp_reado (fun st => hp_sorted st xs);
      match t with
      | LAny =>
          (* result := make(len); copy(result, v); sort of result *)
          hdo n <- hp_alloc_fill (HoArr (repeat HvNull len)) [HoArr xs; HoArr sorted];
          hp_ret (HvSlice LAny (HlNew n) 0 len len)
      | LStrings | LInts =>
          hdo _ <- hp_alloc_fill (HoArr (repeat (hp_zero_of t) len)) [HoArr xs; HoArr sorted];
          hp_new_slice LAny sorted
      | LArray => hp_unmodelled
      end
  | HvArr t xs =>
      hdo sorted <- hp_reado (fun st => hp_sorted st xs);
      hdo n <- hp_alloc_fill (HoArr (repeat (hp_zero_of t) (length xs))) [HoArr xs; HoArr sorted];
      hp_ret (HvSlice t (HlNew n) 0 (length xs) (length xs))
  | _ => hp_fail EOther
  end.

(* filterKeys: fresh; a pointer is followed *)
Definition hp_f_keys_map (t : mtag) (m : hploc) : hpM hpval :=
  hdo kvs <- hp_reado (fun st => hp_map_entries st m);
  match hp_sorted_entries kvs with
  | Some es =>
      match t with
      | MAny => hp_lit_slice LStrings (map fst es)        (* make([]string, 0, n) + append + sort.Strings *)
      | _ => hp_lit_slice LAny (map fst es)               (* make([]interface{}, 0, n) + append of the sorted keys *)
      end
  | None => hp_unmodelled
  end.
Definition hp_f_keys (v : hpval) : hpM hpval :=
  match v with
  | HvNull => hp_ret HvNull
  | HvMap t m => hp_f_keys_map t m
  | HvPtr p =>
      hdo o <- hp_read p;
      match o with
      | HoCell (HvMap t m) => hp_f_keys_map t m
      | _ => hp_fail EOther
      end
  | _ => hp_fail EOther
  end.

(* the elements an argument contributes to a merged list: those of slices and arrays, nothing otherwise *)
Fixpoint hp_merge_args (st : hpstate) (args : list hpval) : option (list hpval) :=
  match args with
  | [] => Some []
  | a :: r =>
      match hp_merge_args st r with
      | None => None
      | Some rest =>
          match a with
          | HvSlice _ _ _ _ _ | HvArr _ _ => match hp_elems st a with Some xs => Some (xs ++ rest) | None => None end
          | _ => Some rest
          end
      end
  end.

(* the entries of a map under their keys as text (mapKeyString) *)
Fixpoint hp_text_keys (kvs : list (hpval * hpval)) : option (list (hpval * hpval)) :=
  match kvs with
  | [] => Some []
  | (k, v) :: r => match hp_key_string k, hp_text_keys r with
                   | Some s, Some l => Some ((HvStr s, v) :: l)
                   | _, _ => None
                   end
  end.

(* the entries the map arguments of a merge contribute, in argument order; arguments that are no maps are ignored *)
Fixpoint hp_merge_map_args (st : hpstate) (args : list hpval) : option (list (hpval * hpval)) :=
  match args with
  | [] => Some []
  | a :: r =>
      match hp_merge_map_args st r with
      | None => None
      | Some rest =>
          match a with
          | HvMap _ m => match hp_map_entries st m with
                         | Some kvs => match hp_text_keys kvs with Some l => Some (l ++ rest) | None => None end
                         | None => None end
          | _ => Some rest
          end
      end
  end.

(* filterMerge: make + append for lists; for maps of any type a new map[string]interface{} with the keys as text;
   anything else is returned itself *)
Definition hp_f_merge (v : hpval) (args : list hpval) : hpM hpval :=
  match v with
  | HvSlice _ _ _ _ _ | HvArr _ _ =>
      hdo xs <- hp_reado (fun st => match hp_elems st v, hp_merge_args st args with
                                    | Some xs, Some more => Some (xs ++ more)
                                    | _, _ => None end);
      hp_lit_slice LAny xs
  | HvMap _ m =>
      hdo kvs <- hp_reado (fun st => match hp_map_entries st m, hp_merge_map_args st args with
                                     | Some kvs, Some more =>
                                         match hp_text_keys kvs with Some base => Some (hp_map_set_all [] (base ++ more)) | None => None end
                                     | _, _ => None end);
      hp_new_map MAny kvs
  | _ => hp_ret v                                                        (* return value, nil *)
  end.

(* upper / lower on ASCII text *)
Definition hp_f_case (up : bool) (v : hpval) : hpM hpval :=
  hp_reader (fun st => match hp_tostring st v with
                       | Some s => if hp_all_ascii s then Ok (HvStr (map (if up then hp_to_upper else hp_to_lower) s)) else Unmodelled
                       | None => Unmodelled
                       end).

Inductive hp_filter := HfDefault | HfRaw | HfLength | HfJoin | HfSplit | HfFirst | HfLast | HfReverse | HfSlice
                     | HfSort | HfKeys | HfMerge | HfUpper | HfLower.

Definition hp_filter_table : list (bytes * hp_filter) :=
  [ (b#"default", HfDefault); (b#"raw", HfRaw); (b#"length", HfLength); (b#"count", HfLength); (b#"join", HfJoin);
    (b#"split", HfSplit); (b#"first", HfFirst); (b#"last", HfLast); (b#"reverse", HfReverse); (b#"slice", HfSlice);
    (b#"sort", HfSort); (b#"keys", HfKeys); (b#"merge", HfMerge); (b#"upper", HfUpper); (b#"lower", HfLower) ].

Definition hp_filter_run (window : bool) (f : hp_filter) (v : hpval) (args : list hpval) : hpM hpval :=
  match f with
  | HfDefault => hp_f_default v args
  | HfRaw => hp_ret v
  | HfLength => hp_f_length v
  | HfJoin => hp_f_join v args
  | HfSplit => hp_f_split v args
  | HfFirst => hp_f_first v
  | HfLast => hp_f_last v
  | HfReverse => hp_f_reverse v
  | HfSlice => hp_f_slice window v args
  | HfSort => hp_f_sort v
  | HfKeys => hp_f_keys v
  | HfMerge => hp_f_merge v args
  | HfUpper => hp_f_case true v
  | HfLower => hp_f_case false v
  end.

(* RenderContext.ApplyFilter for the built-in names of the fragment; every other name is outside the model *)
Definition hp_apply_filter (window : bool) (name : bytes) (v : hpval) (args : list hpval) : hpM hpval :=
  match assoc_bytes hp_filter_table name with
  | Some f => hp_filter_run window f v args
  | None => hp_unmodelled
  end.

(* ------------------------------------------------------------------------------------------------ *)
(* the built-in functions of the fragment                                                            *)

Fixpoint hp_range_up (n : nat) (from : Z) : list hpval :=
  match n with O => [] | S n' => HvInt from :: hp_range_up n' (from + 1) end.

(* functionRange with one or two integer arguments: make + append, fresh *)
Definition hp_fn_range (args : list hpval) : hpM hpval :=
  match args with
  | [HvInt e] => hp_lit_slice LAny (hp_range_up (Z.to_nat (e + 1)) 0)
  | [HvInt s; HvInt e] => hp_lit_slice LAny (hp_range_up (Z.to_nat (e - s + 1)) s)
  | _ => hp_unmodelled
  end.

(* functionMerge on lists: a nil slice grown by append; an argument that is no list is appended as one item *)
Fixpoint hp_fn_merge_args (st : hpstate) (args : list hpval) : option (list hpval) :=
  match args with
  | [] => Some []
  | a :: r =>
      match hp_fn_merge_args st r with
      | None => None
      | Some rest =>
          match a with
          | HvSlice _ _ _ _ _ | HvArr _ _ => match hp_elems st a with Some xs => Some (xs ++ rest) | None => None end
          | _ => Some (a :: rest)
          end
      end
  end.
Definition hp_fn_merge (args : list hpval) : hpM hpval :=
  match args with
  | [] | [_] => hp_fail EOther
  | base :: rest =>
      match base with
      | HvSlice _ _ _ _ _ | HvArr _ _ =>
          hdo xs <- hp_reado (fun st => hp_fn_merge_args st args);
          hp_lit_slice LAny xs
      | HvMap _ m =>
          hdo kvs <- hp_reado (fun st => match hp_map_entries st m, hp_merge_map_args st rest with
                                         | Some kvs, Some more =>
                                             match hp_text_keys kvs with Some b0 => Some (hp_map_set_all [] (b0 ++ more)) | None => None end
                                         | _, _ => None end);
          hp_new_map MAny kvs
      | _ => hp_unmodelled
      end
  end.

(* functionCycle(list, position): the element itself *)
Definition hp_fn_cycle (args : list hpval) : hpM hpval :=
  match args with
  | [l; HvInt pos] =>
      hp_reader (fun st => match l with
                           | HvSlice _ _ _ _ _ | HvArr _ _ =>
                               match hp_elems st l with
                               | Some [] => Ok HvNull
                               | Some xs => Ok (nth (Z.to_nat (Z.modulo pos (Z.of_nat (length xs)))) xs HvNull)
                               | None => Unmodelled
                               end
                           | _ => Unmodelled
                           end)
  | _ => hp_unmodelled
  end.

(* ------------------------------------------------------------------------------------------------ *)
(* aliasing descriptions: the canonical text of a value with, on every reference, the object of the   *)
(* caller it points into (old region) or the mark of a fresh object. Both sides of the correspondence *)
(* check compute it: the model here, the runner from pointer identities.                             *)

Definition hp_ltag_code (t : ltag) : byte := match t with LAny => x61 | LStrings => x73 | LInts => x69 | LArray => x72 end.
Definition hp_mtag_code (t : mtag) : bytes :=
  match t with MAny => b#"a" | MStrStr => b#"ss" | MIntStr => b#"is" | MStrInt => b#"si" end.

Definition hp_ref_slice (arr : hploc) (off cap : nat) : bytes :=
  if Nat.eqb cap 0 then b#"@z"
  else match arr with
       | HlOld n => b#"@o" ++ hp_ntoa n ++ b#"+" ++ hp_ntoa off ++ b#":" ++ hp_ntoa cap
       | HlNew _ => b#"@n"
       end.
Definition hp_ref_obj (l : hploc) : bytes :=
  match l with HlOld n => b#"@o" ++ hp_ntoa n | HlNew _ => b#"@n" end.

Fixpoint hp_describe (fu : nat) (st : hpstate) (v : hpval) : option bytes :=
  match fu with
  | O => None
  | S fu' =>
    let sub := hp_describe fu' st in
    let seq (xs : list hpval) : option bytes :=
      match hp_opt_all (map sub xs) with Some l => Some (x5b :: hp_concat [x2c] l ++ [x5d]) | None => None end in
    match v with
    | HvNull => Some b#"n"
    | HvBool b => Some (if b then b#"b1" else b#"b0")
    | HvInt z => Some (x69 :: hp_itoa z)
    | HvStr s => Some (x73 :: hp_ntoa (length s) ++ x3a :: s)
    | HvSlice t arr off len cap =>
        match hp_window st arr off len with
        | Some xs => match seq xs with
                     | Some s => Some (x4c :: hp_ltag_code t :: hp_ref_slice arr off cap ++ s)
                     | None => None end
        | None => None
        end
    | HvArr t xs => match seq xs with Some s => Some (x41 :: hp_ltag_code t :: s) | None => None end
    | HvMap t m =>
        match hp_map_entries st m with
        | Some kvs =>
            match hp_sorted_entries kvs with
            | Some es =>
                match hp_opt_all (map (fun kv => match sub (fst kv), sub (snd kv) with
                                                 | Some a, Some b => Some (a ++ x3d :: b)
                                                 | _, _ => None end) es) with
                | Some l => Some (x4d :: hp_mtag_code t ++ hp_ref_obj m ++ x7b :: hp_concat [x2c] l ++ [x7d])
                | None => None
                end
            | None => None
            end
        | None => None
        end
    | HvStruct ty fs =>
        match hp_opt_all (map (fun f => sub (snd f)) fs) with
        | Some l => Some (x53 :: hp_ntoa ty ++ x7b :: hp_concat [x2c] l ++ [x7d])
        | None => None
        end
    | HvPtr p =>
        match hp_get st p with
        | Some (HoCell c) => match sub c with Some s => Some (x50 :: hp_ref_obj p ++ x28 :: s ++ [x29]) | None => None end
        | _ => None
        end
    end
  end.

Definition hp_describe_obj (st : hpstate) (o : hpobj) : option bytes :=
  match o with
  | HoArr xs => match hp_opt_all (map (hp_describe hp_fmt_fuel st) xs) with
                | Some l => Some (b#"arr[" ++ hp_concat [x2c] l ++ [x5d]) | None => None end
  | HoMap kvs => match hp_sorted_entries kvs with
                 | Some es => match hp_opt_all (map (fun kv => match hp_describe hp_fmt_fuel st (fst kv), hp_describe hp_fmt_fuel st (snd kv) with
                                                               | Some a, Some b => Some (a ++ x3d :: b) | _, _ => None end) es) with
                              | Some l => Some (b#"map{" ++ hp_concat [x2c] l ++ [x7d]) | None => None end
                 | None => None end
  | HoCell c => match hp_describe hp_fmt_fuel st c with Some s => Some (b#"cell(" ++ s ++ [x29]) | None => None end
  end.

(* the content of every object of the caller, in order: what the runner compares its own snapshot with *)
Definition hp_describe_old (st : hpstate) : option (list bytes) :=
  hp_opt_all (map (hp_describe_obj st) (hs_old st)).

(* ------------------------------------------------------------------------------------------------ *)
(* callbacks registered by the caller (functions of the environment). Two are used by the            *)
(* correspondence check: verif_alias returns the aliasing description of its argument and touches     *)
(* nothing; verif_poke WRITES through its argument as a careless extension function would             *)
(* (element 0 of a slice, and the first slot of spare capacity; a marker key in a map).               *)

Definition hp_user := bytes -> option (list hpval -> hpM hpval).

Definition hp_poke_mark : hpval := HvStr b#"POKED".

Definition hp_u_alias (args : list hpval) : hpM hpval :=
  match args with
  | [v] => hp_reado (fun st => match hp_describe hp_fmt_fuel st v with Some s => Some (HvStr s) | None => None end)
  | _ => hp_unmodelled
  end.

Definition hp_u_poke (args : list hpval) : hpM hpval :=
  match args with
  | [HvSlice LAny arr off len cap] =>
      hdo o <- hp_read arr;
      match o with
      | HoArr xs =>
          (* v[0] = mark when len > 0; v = append(v, mark) writes slot len when cap > len *)
          let xs1 := if Nat.ltb 0 len then hp_list_set xs off hp_poke_mark else xs in
          let xs2 := if Nat.ltb len cap then hp_list_set xs1 (off + len) hp_poke_mark else xs1 in
          hdo _ <- hp_put arr (HoArr xs2);
          hp_ret (HvStr [])
      | _ => hp_unmodelled
      end
  | [HvMap MAny m] =>
      hdo o <- hp_read m;
      match o with
      | HoMap kvs => hdo _ <- hp_put m (HoMap (hp_map_set kvs (HvStr b#"_poked") hp_poke_mark)); hp_ret (HvStr [])
      | _ => hp_unmodelled
      end
  | [_] => hp_ret (HvStr [])
  | _ => hp_unmodelled
  end.

Definition hp_user_none : hp_user := fun _ => None.
Definition hp_user_alias : hp_user := fun name => if bytes_eqb name b#"verif_alias" then Some hp_u_alias else None.
Definition hp_user_poke : hp_user :=
  fun name => if bytes_eqb name b#"verif_alias" then Some hp_u_alias
              else if bytes_eqb name b#"verif_poke" then Some hp_u_poke else None.

(* ------------------------------------------------------------------------------------------------ *)
(* render contexts                                                                                   *)

(* one RenderContext: the location of its variable map (ctx.context) and its macro table (ctx.macros);
   a render context chain is the context followed by its parents *)
Record hp_macro := mk_hp_macro { hm_params : list (bytes * option expr); hm_body : list node }.
Record hp_frame := mk_hp_frame { hf_vars : hploc; hf_macros : list (bytes * hp_macro) }.
Definition hp_ctx := list hp_frame.

(* GetVariable: the own map, then the parents *)
Fixpoint hp_lookup (st : hpstate) (rc : hp_ctx) (x : bytes) : option hpval :=
  match rc with
  | [] => Some HvNull
  | f :: parents =>
      match hp_map_entries st (hf_vars f) with
      | Some kvs => match hp_map_find kvs (HvStr x) with
                    | Some v => Some v
                    | None => hp_lookup st parents x
                    end
      | None => None
      end
  end.

(* GetMacro: the own table, then the parents *)
Fixpoint hp_find_macro (rc : hp_ctx) (x : bytes) : option hp_macro :=
  match rc with
  | [] => None
  | f :: parents => match assoc_bytes (hf_macros f) x with Some m => Some m | None => hp_find_macro parents x end
  end.

(* SetVariable: ctx.context[name] = value -- a WRITE to the map the context holds *)
Definition hp_setvar (rc : hp_ctx) (x : bytes) (v : hpval) : hpM unit :=
  match rc with
  | [] => hp_unmodelled
  | f :: _ =>
      hdo o <- hp_read (hf_vars f);
      match o with
      | HoMap kvs => hp_put (hf_vars f) (HoMap (hp_map_set kvs (HvStr x) v))
      | _ => hp_unmodelled
      end
  end.

(* NewRenderContext(env, context, engine): a map of its own (from the pool, cleared), then every entry of the
   argument is copied into it *)
Definition hp_new_context (entries : list (hpval * hpval)) : hpM hp_frame :=
  hdo n <- hp_alloc_fill (HoMap []) [HoMap entries];
  hp_ret (mk_hp_frame (HlNew n) []).

(* ------------------------------------------------------------------------------------------------ *)
(* getAttribute / getItem: reads; the result is the element itself                                    *)

Definition hp_get_attr (v : hpval) (a : bytes) : hpM hpval :=
  hp_reader (fun st =>
    match v with
    | HvNull => Ok HvNull
    | HvMap MAny m => match hp_map_entries st m with
                      | Some kvs => Ok (match hp_map_find kvs (HvStr a) with Some x => x | None => HvNull end)
                      | None => Unmodelled end
    | HvMap MIntStr _ => Ok HvNull                  (* getItem with a string that converts to no int key *)
    | HvMap _ m => match hp_map_entries st m with   (* maps of any other type: the attribute is the key *)
                   | Some kvs => Ok (match hp_map_find kvs (HvStr a) with Some x => x | None => HvNull end)
                   | None => Unmodelled end
    | HvStruct _ fs => Ok (match assoc_bytes fs a with Some x => x | None => HvNull end)
    | HvPtr p => match hp_get st p with
                 | Some (HoCell (HvStruct _ fs)) => Ok (match assoc_bytes fs a with Some x => x | None => HvNull end)
                 | Some (HoCell _) => Ok HvNull
                 | _ => Unmodelled end
    | _ => Ok HvNull
    end).

Definition hp_get_item (v : hpval) (i : hpval) : hpM hpval :=
  hp_reader (fun st =>
    match v with
    | HvNull => Ok HvNull
    | HvSlice _ _ _ _ _ | HvArr _ _ =>
        match i, hp_elems st v with
        | HvInt z, Some xs => if Z.ltb z 0 || Z.leb (Z.of_nat (length xs)) z then Err EOther
                              else Ok (nth (Z.to_nat z) xs HvNull)
        | _, _ => Unmodelled
        end
    | HvMap t m =>
        match hp_map_entries st m with
        | Some kvs =>
            match t, i with
            | MAny, HvStr _ | MStrStr, HvStr _ | MStrInt, HvStr _ | MIntStr, HvInt _ =>
                Ok (match hp_map_find kvs i with Some x => x | None => HvNull end)
            | MAny, HvInt z => Ok (match hp_map_find kvs (HvStr (hp_itoa z)) with Some x => x | None => HvNull end)
            | _, _ => Unmodelled
            end
        | None => Unmodelled
        end
    | HvStr _ | HvBool _ | HvInt _ => Ok HvNull
    | _ => Unmodelled
    end).

(* ------------------------------------------------------------------------------------------------ *)
(* expressions                                                                                       *)

Definition hp_lit (l : lit) : hpval :=
  match l with LNull => HvNull | LBool b => HvBool b | LInt z => HvInt z | LStr s => HvStr s end.

(* evaluation of a list of sub-expressions, left to right, with the lower-fuel evaluator as a parameter *)
Fixpoint hp_eval_list (ev : expr -> hpM hpval) (es : list expr) : hpM (list hpval) :=
  match es with
  | [] => hp_ret []
  | e :: r => hdo v <- ev e; hdo vs <- hp_eval_list ev r; hp_ret (v :: vs)
  end.

(* a hash literal: keys are converted with ToString; later pairs overwrite earlier ones *)
Fixpoint hp_eval_pairs (ev : expr -> hpM hpval) (kvs : list (expr * expr)) : hpM (list (hpval * hpval)) :=
  match kvs with
  | [] => hp_ret []
  | (k, e) :: r =>
      hdo kv <- ev k;
      hdo ks <- hp_reado (fun st => hp_tostring st kv);
      hdo v <- ev e;
      hdo rest <- hp_eval_pairs ev r;
      hp_ret ((HvStr ks, v) :: rest)
  end.

(* a chain of filters a|f|g(..) is one FilterNode chain: DetectFilterChain peels the filters off down to the base
   expression, ApplyFilterChain applies them in order; a nil result in the middle of the chain stays nil *)
Fixpoint hp_unchain (e : expr) (acc : list (bytes * list expr)) : expr * list (bytes * list expr) :=
  match e with
  | EFilter o name args => hp_unchain o ((name, args) :: acc)
  | _ => (e, acc)
  end.

Section HpEval.
  Variable window : bool.
  Variable user : hp_user.

  Fixpoint hp_apply_chain (ev : expr -> hpM hpval) (v : hpval) (chain : list (bytes * list expr)) : hpM hpval :=
    match chain with
    | [] => hp_ret v
    | (name, args) :: rest =>
        hdo avs <- hp_eval_list ev args;
        hdo r <- hp_apply_filter window name v avs;
        hp_apply_chain ev r rest
    end.

  (* the few binary operators of the fragment *)
  Definition hp_binop (o : binop) (a b : hpval) : hpM hpval :=
    hp_reado (fun st =>
      match o with
      | BConcat => match hp_tostring st a, hp_tostring st b with
                   | Some x, Some y => Some (HvStr (x ++ y)) | _, _ => None end
      | BAdd => match a, b with HvInt x, HvInt y => Some (HvInt (x + y)) | _, _ => None end
      | BSub => match a, b with HvInt x, HvInt y => Some (HvInt (x - y)) | _, _ => None end
      | BEq => match a, b with HvInt x, HvInt y => Some (HvBool (Z.eqb x y)) | _, _ => None end
      | BLt => match a, b with HvInt x, HvInt y => Some (HvBool (Z.ltb x y)) | _, _ => None end
      | BGt => match a, b with HvInt x, HvInt y => Some (HvBool (Z.ltb y x)) | _, _ => None end
      | _ => None
      end).

  Definition hp_truth (v : hpval) : hpM bool := hp_reado (fun st => hp_truthy st v).

  Fixpoint hp_eval (fu : nat) (rc : hp_ctx) (e : expr) : hpM hpval :=
    match fu with
    | O => hp_nofuel
    | S fu' =>
      let ev := hp_eval fu' rc in
      match e with
      | ELit l => hp_ret (hp_lit l)
      | EVar x =>
          (* a macro name evaluates to the macro node: outside the fragment *)
          match hp_find_macro rc x with
          | Some _ => hp_unmodelled
          | None => hp_reado (fun st => hp_lookup st rc x)
          end
      | EAttr o a => hdo v <- ev o; hp_get_attr v a
      | EItem o i => hdo v <- ev o; hdo iv <- ev i; hp_get_item v iv
      | EUn UNot a => hdo v <- ev a; hdo b <- hp_truth v; hp_ret (HvBool (negb b))
      | EUn _ _ => hp_unmodelled
      | EBin BAnd a b =>
          hdo x <- ev a;
          hdo bx <- hp_truth x;
          if bx then hdo y <- ev b; hdo t <- hp_truth y; hp_ret (HvBool t)
          else hp_ret (HvBool false)
      | EBin BOr a b =>
          hdo x <- ev a;
          hdo bx <- hp_truth x;
          if bx then hp_ret (HvBool true)
          else hdo y <- ev b; hdo t <- hp_truth y; hp_ret (HvBool t)
      | EBin o a b => hdo x <- ev a; hdo y <- ev b; hp_binop o x y
      | ECond c t f =>
          hdo cv <- ev c;
          hdo b <- hp_truth cv;
          if b then ev t else ev f
      | EArr es =>
          (* make([]interface{}, 0, n) + append; the empty literal is []interface{}{} *)
          hdo vs <- hp_eval_list ev es; hp_lit_slice LAny vs
      | EHash kvs =>
          hdo ps <- hp_eval_pairs ev kvs; hp_new_map MAny (hp_map_set_all [] ps)
      | EFilter _ _ _ =>
          (* DetectFilterChain evaluates the arguments of the whole chain first, then the base value; the
             evaluation of an expression writes nothing, so the order cannot be observed *)
          hdo v <- ev (fst (hp_unchain e []));
          hdo r <- hp_apply_chain ev v (snd (hp_unchain e []));
          (* evaluateFilterNode in EvaluateExpression: a nil result of the whole chain becomes the empty string *)
          hp_ret (match r with HvNull => HvStr [] | _ => r end)
      | ECall name args =>
          match hp_find_macro rc name with
          | Some _ => hp_unmodelled          (* a macro call yields a callable: only printing it is in the fragment *)
          | None =>
              hdo avs <- hp_eval_list ev args;
              match user name with
              | Some f => f avs
              | None =>
                  if bytes_eqb name b#"range" then hp_fn_range avs
                  else if bytes_eqb name b#"merge" then hp_fn_merge avs
                  else if bytes_eqb name b#"cycle" then hp_fn_cycle avs
                  else if bytes_eqb name b#"length" then
                    match avs with
                    | [v] => hp_reader (fun st => match hp_length_of st v with Ok r => Ok r | _ => Ok (HvInt 0) end)
                    | _ => hp_fail EOther end
                  else hp_unmodelled
              end
          end
      | EModCall _ _ _ => hp_unmodelled
      | ETest _ _ _ _ => hp_unmodelled
      end
    end.

  (* ---------------------------------------------------------------------------------------------- *)
  (* nodes                                                                                            *)

  (* the text a print tag writes for a value (PrintNode.Render) *)
  Definition hp_print (v : hpval) : hpM bytes := hp_reado (fun st => hp_tostring st v).

  (* the seven entries of a fresh loop map *)
  Definition hp_loop_entries (index length : nat) : list (hpval * hpval) :=
    [ (HvStr b#"index", HvInt (Z.of_nat (index + 1))); (HvStr b#"index0", HvInt (Z.of_nat index));
      (HvStr b#"revindex", HvInt (Z.of_nat (length - index))); (HvStr b#"revindex0", HvInt (Z.of_nat (length - index - 1)));
      (HvStr b#"first", HvBool (Nat.eqb index 0)); (HvStr b#"last", HvBool (Nat.eqb index (length - 1)));
      (HvStr b#"length", HvInt (Z.of_nat length)) ].
  Definition hp_loop_zero : list (hpval * hpval) :=
    [ (HvStr b#"index", HvInt 0); (HvStr b#"index0", HvInt 0); (HvStr b#"revindex", HvInt 0); (HvStr b#"revindex0", HvInt 0);
      (HvStr b#"first", HvBool false); (HvStr b#"last", HvBool false); (HvStr b#"length", HvInt 0) ].

  (* one iteration: six WRITES to the loop map (a fresh object), SetVariable of the value, the key and loop
     (WRITES to the variable map of the context), then the body *)
  Definition hp_iteration (body : hp_ctx -> hpM (bytes * hp_ctx)) (rc : hp_ctx) (lm : nat) (kvar : option bytes) (vvar : bytes)
             (index length : nat) (key value : hpval) : hpM (bytes * hp_ctx) :=
    hdo _ <- hp_put (HlNew lm) (HoMap (hp_loop_entries index length));
    hdo _ <- hp_setvar rc vvar value;
    hdo _ <- (match kvar with Some k => hp_setvar rc k key | None => hp_ret tt end);
    hdo _ <- hp_setvar rc b#"loop" (HvMap MAny (HlNew lm));
    body rc.

  (* iteration over a slice: element i is read from the array when iteration i starts (val.Index(i)) *)
  Fixpoint hp_loop_slice (body : hp_ctx -> hpM (bytes * hp_ctx)) (lm : nat) (kvar : option bytes) (vvar : bytes)
           (arr : hploc) (off length : nat) (todo index : nat) (rc : hp_ctx) (acc : bytes) : hpM (bytes * hp_ctx) :=
    match todo with
    | O => hp_ret (acc, rc)
    | S todo' =>
        hdo x <- hp_reado (fun st => match hp_window st arr (off + index) 1 with Some [x] => Some x | _ => None end);
        hdo '(out, rc') <- hp_iteration body rc lm kvar vvar index length (HvInt (Z.of_nat index)) x;
        hp_loop_slice body lm kvar vvar arr off length todo' (S index) rc' (acc ++ out)
    end.

  (* iteration over a list of (key, value) pairs fixed when the loop starts (array values, strings);
     and over the keys of a map, whose values are read when their iteration starts (val.MapIndex(key)) *)
  Fixpoint hp_loop_pairs (body : hp_ctx -> hpM (bytes * hp_ctx)) (lm : nat) (kvar : option bytes) (vvar : bytes)
           (length : nat) (items : list (hpval * hpval)) (index : nat) (rc : hp_ctx) (acc : bytes) : hpM (bytes * hp_ctx) :=
    match items with
    | [] => hp_ret (acc, rc)
    | (k, x) :: r =>
        hdo '(out, rc') <- hp_iteration body rc lm kvar vvar index length k x;
        hp_loop_pairs body lm kvar vvar length r (S index) rc' (acc ++ out)
    end.
  Fixpoint hp_loop_map (body : hp_ctx -> hpM (bytes * hp_ctx)) (lm : nat) (kvar : option bytes) (vvar : bytes)
           (m : hploc) (length : nat) (keys : list hpval) (index : nat) (rc : hp_ctx) (acc : bytes) : hpM (bytes * hp_ctx) :=
    match keys with
    | [] => hp_ret (acc, rc)
    | k :: r =>
        hdo x <- hp_reado (fun st => match hp_map_entries st m with
                                     | Some kvs => Some (match hp_map_find kvs k with Some x => x | None => HvNull end)
                                     | None => None end);
        hdo '(out, rc') <- hp_iteration body rc lm kvar vvar index length k x;
        hp_loop_map body lm kvar vvar m length r (S index) rc' (acc ++ out)
    end.

  Fixpoint hp_indexed (i : nat) (xs : list hpval) : list (hpval * hpval) :=
    match xs with [] => [] | x :: r => (HvInt (Z.of_nat i), x) :: hp_indexed (S i) r end.

  (* ForNode.renderForLoop *)
  Definition hp_for (body els : hp_ctx -> hpM (bytes * hp_ctx)) (rc : hp_ctx) (kvar : option bytes) (vvar : bytes) (seq : hpval)
    : hpM (bytes * hp_ctx) :=
    match seq with
    | HvNull => els rc
    | _ =>
      (* loopVars := map{ "loop": map{...} }: the loop map is allocated before the kind of the sequence is looked at *)
      hdo lm <- hp_alloc (HoMap hp_loop_zero);
      (* the loop variable of the enclosing loop, if this context has one, is restored when the loop is done *)
      hdo outer <- hp_reado (fun st => match rc with
                                       | f :: _ => match hp_map_entries st (hf_vars f) with
                                                   | Some kvs => Some (hp_map_find kvs (HvStr b#"loop"))
                                                   | None => None end
                                       | [] => None end);
      let finish (r : bytes * hp_ctx) : hpM (bytes * hp_ctx) :=
        match outer with
        | Some o => hdo _ <- hp_setvar (snd r) b#"loop" o; hp_ret r
        | None => hp_ret r
        end in
      let start (length : nat) (run : hpM (bytes * hp_ctx)) : hpM (bytes * hp_ctx) :=
        if Nat.eqb length 0 then els rc
        else
          hdo _ <- hp_put (HlNew lm) (HoMap (hp_map_set hp_loop_zero (HvStr b#"length") (HvInt (Z.of_nat length))));
          hdo r <- run; finish r in
      match seq with
      | HvSlice LAny arr off len _ =>
          start len (hp_loop_slice body lm kvar vvar arr off len len 0 rc [])
      | HvSlice t arr off len _ =>
          (* typed elements: a new []interface{} is made and filled, the loop runs over it *)
          if Nat.eqb len 0 then els rc
          else
            hdo xs <- hp_reado (fun st => hp_window st arr off len);
            hdo n <- hp_alloc_fill (HoArr (repeat HvNull len)) [HoArr xs];
            start len (hp_loop_slice body lm kvar vvar (HlNew n) 0 len len 0 rc [])
      | HvArr LAny xs => start (length xs) (hp_loop_pairs body lm kvar vvar (length xs) (hp_indexed 0 xs) 0 rc [])
      | HvArr _ xs =>
          if Nat.eqb (length xs) 0 then els rc
          else
            hdo n <- hp_alloc_fill (HoArr (repeat HvNull (length xs))) [HoArr xs];
            start (length xs) (hp_loop_slice body lm kvar vvar (HlNew n) 0 (length xs) (length xs) 0 rc [])
      | HvMap _ m =>
          hdo kvs <- hp_reado (fun st => hp_map_entries st m);
          match hp_sorted_entries kvs with
          | Some es => start (length es) (hp_loop_map body lm kvar vvar m (length es) (map fst es) 0 rc [])
          | None => hp_unmodelled
          end
      | HvStr s =>
          if hp_all_ascii s then
            start (length s) (hp_loop_pairs body lm kvar vvar (length s) (hp_indexed 0 (map (fun c => HvStr [c]) s)) 0 rc [])
          else hp_unmodelled
      | _ => els rc
      end
    end.

  (* the first branch whose condition is truthy *)
  Fixpoint hp_if (ev : expr -> hpM hpval) (rn : list node -> hp_ctx -> hpM (bytes * hp_ctx)) (rc : hp_ctx)
           (branches : list (expr * list node)) (els : option (list node)) : hpM (bytes * hp_ctx) :=
    match branches with
    | [] => match els with Some b => rn b rc | None => hp_ret ([], rc) end
    | (c, b) :: r =>
        hdo cv <- ev c;
        hdo t <- hp_truth cv;
        if t then rn b rc else hp_if ev rn rc r els
    end.

  (* the variables of include ... with {..}: evaluated in the including context, SetVariable on the new one *)
  Fixpoint hp_set_all (ev : expr -> hpM hpval) (target : hp_ctx) (kvs : list (expr * expr)) : hpM unit :=
    match kvs with
    | [] => hp_ret tt
    | (ELit (LStr k), e) :: r => hdo v <- ev e; hdo _ <- hp_setvar target k v; hp_set_all ev target r
    | _ => hp_unmodelled
    end.

  (* the parser stores the variables of an include in a Go map keyed by name: of two entries with one name the later stays *)
  Fixpoint hp_with_has (k : bytes) (kvs : list (expr * expr)) : bool :=
    match kvs with
    | [] => false
    | (ELit (LStr k'), _) :: r => bytes_eqb k k' || hp_with_has k r
    | _ :: r => hp_with_has k r
    end.
  Fixpoint hp_with_dedupe (kvs : list (expr * expr)) : list (expr * expr) :=
    match kvs with
    | [] => []
    | (ELit (LStr k), e) :: r => if hp_with_has k r then hp_with_dedupe r else (ELit (LStr k), e) :: hp_with_dedupe r
    | x :: r => x :: hp_with_dedupe r
    end.

  (* MacroNode.CallMacro: parameters bound in a new context whose parent is the calling context *)
  Fixpoint hp_bind_params (ev : expr -> hpM hpval) (target : hp_ctx) (params : list (bytes * option expr)) (args : list hpval) : hpM unit :=
    match params with
    | [] => hp_ret tt
    | (p, d) :: r =>
        match args with
        | a :: args' => hdo _ <- hp_setvar target p a; hp_bind_params ev target r args'
        | [] =>
            hdo v <- (match d with Some e => ev e | None => hp_ret HvNull end);
            hdo _ <- hp_setvar target p v; hp_bind_params ev target r []
        end
    end.

  Definition hp_add_macro (rc : hp_ctx) (name : bytes) (m : hp_macro) : hp_ctx :=
    match rc with
    | [] => []
    | f :: parents => mk_hp_frame (hf_vars f) ((name, m) :: hf_macros f) :: parents
    end.

  Definition hp_tplset := list (bytes * list node).

  (* the nodes of a body, in order, threading the context (macro definitions register as they are rendered) *)
  Fixpoint hp_nodes_with (rnode : node -> hp_ctx -> hpM (bytes * hp_ctx)) (ns : list node) (rc : hp_ctx) : hpM (bytes * hp_ctx) :=
    match ns with
    | [] => hp_ret ([], rc)
    | n :: r =>
        hdo '(o1, rc1) <- rnode n rc;
        hdo '(o2, rc2) <- hp_nodes_with rnode r rc1;
        hp_ret (o1 ++ o2, rc2)
    end.

  Fixpoint hp_node (fu : nat) (tpls : hp_tplset) (n : node) (rc : hp_ctx) : hpM (bytes * hp_ctx) :=
    match fu with
    | O => hp_nofuel
    | S fu' =>
      let ev := hp_eval fu' rc in
      let rn := hp_nodes_with (hp_node fu' tpls) in
      match n with
      | NText s => hp_ret (s, rc)
      | NVerbatim s => hp_ret (s, rc)
      | NPrint (ECall name args) =>
          match hp_find_macro rc name with
          | Some m =>
              (* arguments are evaluated where the call stands; CallMacro makes NewRenderContext(env, nil, engine) *)
              hdo avs <- hp_eval_list ev args;
              hdo fr <- hp_new_context [];
              let mc := fr :: rc in
              hdo _ <- hp_bind_params ev mc (hm_params m) avs;
              hdo '(out, _) <- rn (hm_body m) mc;
              hp_ret (out, rc)
          | None => hdo v <- ev (ECall name args); hdo s <- hp_print v; hp_ret (s, rc)
          end
      | NPrint e => hdo v <- ev e; hdo s <- hp_print v; hp_ret (s, rc)
      | NIf branches els => hp_if ev rn rc branches els
      | NFor kvar vvar seq body els =>
          hdo sv <- (match seq with
                     | EFilter _ _ _ =>
                         (* ForNode.Render evaluates a filter chain itself: no nil-to-empty-string step *)
                         hdo v <- ev (fst (hp_unchain seq [])); hp_apply_chain ev v (snd (hp_unchain seq []))
                     | _ => ev seq
                     end);
          hp_for (rn body) (match els with Some b => rn b | None => fun rc => hp_ret ([], rc) end) rc kvar vvar sv
      | NSet x e => hdo v <- ev e; hdo _ <- hp_setvar rc x v; hp_ret ([], rc)
      | NDo e => hdo _ <- ev e; hp_ret ([], rc)
      | NMacro name params body => hp_ret ([], hp_add_macro rc name (mk_hp_macro params body))
      | NInclude (ELit (LStr name)) withs ignore_missing only false =>
          match assoc_bytes tpls name with
          | None => if ignore_missing then hp_ret ([], rc) else hp_fail ENotFound
          | Some body =>
              hdo kvs <- (match withs with
                          | None => hp_ret []
                          | Some (EHash kvs) => hp_ret kvs
                          | Some _ => hp_unmodelled end);
              hdo ic <- (if only then
                           (* contextVars := make(map); NewRenderContext(env, contextVars, engine): no parent, no macros *)
                           hdo _ <- hp_alloc (HoMap []);
                           hdo fr <- hp_new_context [];
                           hp_ret [fr]
                         else
                           (* ctx.Clone(): a map of its own, the macros by reference, parent = ctx *)
                           hdo fr <- hp_new_context [];
                           hp_ret (mk_hp_frame (hf_vars fr) (match rc with f :: _ => hf_macros f | [] => [] end) :: rc));
              hdo _ <- hp_set_all ev ic (hp_with_dedupe kvs);
              hdo '(out, _) <- rn body ic;
              hp_ret (out, rc)
          end
      | NApply name args body =>
          hdo '(out, rc1) <- rn body rc;
          hdo avs <- hp_eval_list (hp_eval fu' rc1) args;
          hdo r <- hp_apply_filter window name (HvStr out) avs;
          hdo s <- hp_print r;
          hp_ret (s, rc1)
      | _ => hp_unmodelled
      end
    end.

  Definition hp_nodes (fu : nat) (tpls : hp_tplset) : list node -> hp_ctx -> hpM (bytes * hp_ctx) :=
    hp_nodes_with (hp_node fu tpls).

  (* Engine.Render(name, context): NewRenderContext copies the map of the caller, then the nodes are rendered.
     root is the location of the context map in the heap of the caller. *)
  Definition hp_render_st (fu : nat) (tpls : hp_tplset) (name : bytes) (root : nat) : hpM bytes :=
    match assoc_bytes tpls name with
    | None => hp_fail ENotFound
    | Some body =>
        hdo o <- hp_read (HlOld root);
        match o with
        | HoMap entries =>
            hdo fr <- hp_new_context entries;
            hdo '(out, _) <- hp_nodes fu tpls body [fr];
            hp_ret out
        | _ => hp_unmodelled
        end
    end.
End HpEval.

(* ------------------------------------------------------------------------------------------------ *)
(* the render of the property: the heap is the heap of the caller, before and after                   *)

Definition hp_heap := list hpobj.

Definition hp_render_with (window : bool) (user : hp_user) (fu : nat) (tpls : hp_tplset) (name : bytes) (root : nat) (h : hp_heap)
  : outcome (bytes * hp_heap) :=
  match hp_render_st window user fu tpls name root (mk_hpstate h []) with
  | Ok (out, st) => Ok (out, hs_old st)
  | Err e => Err e
  | OutOfFuel => OutOfFuel
  | Unmodelled => Unmodelled
  end.

(* the engine as it is: slice as the translator read it from extension.go, and the one callback of the
   correspondence check that only looks *)
Definition render_heap : nat -> hp_tplset -> bytes -> nat -> hp_heap -> outcome (bytes * hp_heap) :=
  hp_render_with fw_slice_window hp_user_alias.

(* the same with the callback that writes through its argument *)
Definition render_heap_poke : nat -> hp_tplset -> bytes -> nat -> hp_heap -> outcome (bytes * hp_heap) :=
  hp_render_with fw_slice_window hp_user_poke.

(* one filter applied to a value of the caller (the aliasing probes of the correspondence check) *)
Definition hp_probe_filter (name : bytes) (v : hpval) (args : list hpval) (h : hp_heap) : outcome (hpval * hpstate) :=
  hp_apply_filter fw_slice_window name v args (mk_hpstate h []).

(* ------------------------------------------------------------------------------------------------ *)
(* deep snapshots: a heap value as the tree the caller sees (the shared value type of Model/Value.v)  *)

Fixpoint hp_snap (fu : nat) (st : hpstate) (v : hpval) : option value :=
  match fu with
  | O => None
  | S fu' =>
    let sub := hp_snap fu' st in
    match v with
    | HvNull => Some VNull
    | HvBool b => Some (VBool b)
    | HvInt z => Some (VInt z)
    | HvStr s => Some (VStr s)
    | HvSlice t arr off len _ =>
        match hp_window st arr off len with
        | Some xs => match hp_opt_all (map sub xs) with Some l => Some (VList t l) | None => None end
        | None => None
        end
    | HvArr _ xs => match hp_opt_all (map sub xs) with Some l => Some (VList LArray l) | None => None end
    | HvMap t m =>
        match hp_map_entries st m with
        | Some kvs => match hp_opt_all (map (fun kv => match sub (fst kv), sub (snd kv) with
                                                       | Some a, Some b => Some (a, b) | _, _ => None end) kvs) with
                      | Some l => Some (VMap t l) | None => None end
        | None => None
        end
    | HvStruct ty fs =>
        match hp_opt_all (map (fun f => match sub (snd f) with Some x => Some (fst f, x) | None => None end) fs) with
        | Some l => Some (VStruct ty l) | None => None end
    | HvPtr p =>
        match hp_get st p with
        | Some (HoCell c) => match sub c with Some x => Some (VPtr (Some x)) | None => None end
        | _ => None
        end
    end
  end.
