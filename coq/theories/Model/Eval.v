(* The tree-walking renderer of twig as an executable, fuelled, state-passing model.
     eval   : fuel -> env -> ctx -> expr -> outcome value * trace            render.go EvaluateExpression
     render : fuel -> env -> ctx -> list node -> outcome bytes * ctx * trace  the Render methods of node.go on a body
     render_root                                                              RootNode.Render on a template
     render_template : fuel -> env -> name -> variables -> outcome bytes * trace   Engine.Render
   Recursion is on fuel only. Every traversal of a list of sub-terms is its own top-level Fixpoint taking the
   lower-fuel evaluator / renderer as an argument (ev_list, ev_pairs, ev_chain_args, ev_apply_chain, ev_if,
   ev_loop_items, ev_bind_params, ev_with_vars, ev_from_names). Each node kind has its own definition
   (ev_print, ev_if, ev_for, ev_set, ev_block, ev_extends, ev_include, ev_import, ev_from, ev_apply, ev_spaceless, ev_root) that
   render_node dispatches to, so that a property speaks about the helper of its node kind.
   The context after rendering is returned: SetNode and ForNode write the variable map of the context they
   run in, and that map is shared by everything rendered later in the same context. Derived contexts
   (include, macro call, import, extends) are built from the current one, used, and dropped.
   Errors carry their class only. An error aborts the whole rendering (no site swallows one any more; a missing
   template under ignore missing is not an error); output produced before an error is never observable.
   No proofs here. *)
From Twig Require Import Base.Bytes Base.Utf8 Model.Ast Model.Value Model.ValueOps Model.Escape
                         Model.EvalBuiltins Model.Ctx Model.TemplateSet Gen.Registry.

Definition ev_res := (outcome value * ev_trace)%type.
Definition ev_rres := (outcome bytes * rctx * ev_trace)%type.

(* ---------------------------------------------------------------- sequencing *)
Definition ev_cast {A B} (o : outcome A) (d : outcome B) : outcome B :=
  match o with
  | Ok _ => d
  | Err e => Err e
  | OutOfFuel => OutOfFuel
  | Unmodelled => Unmodelled
  end.

(* run r, then k on its value; traces concatenate *)
Definition ev_bind {A B} (r : outcome A * ev_trace) (k : A -> outcome B * ev_trace) : outcome B * ev_trace :=
  match r with
  | (Ok a, t) => let '(r2, t2) := k a in (r2, t ++ t2)
  | (o, t) => (ev_cast o Unmodelled, t)
  end.
Definition ev_ret {A} (a : A) : outcome A * ev_trace := (Ok a, []).
Definition ev_lift {A} (o : outcome A) : outcome A * ev_trace := (o, []).
Definition ev_opt {A} (o : option A) : outcome A * ev_trace :=
  match o with Some a => (Ok a, []) | None => (Unmodelled, []) end.

(* an expression step inside rendering: on success continue with k, otherwise stop in context c *)
Definition ev_rexpr {A} (r : outcome A * ev_trace) (c : rctx) (k : A -> ev_rres) : ev_rres :=
  match r with
  | (Ok a, t) => let '(r2, c2, t2) := k a in (r2, c2, t ++ t2)
  | (o, t) => (ev_cast o Unmodelled, c, t)
  end.
(* a rendering step followed by k on the context it leaves; outputs and traces concatenate *)
Definition ev_rseq (r : ev_rres) (k : rctx -> ev_rres) : ev_rres :=
  match r with
  | (Ok o1, c1, t1) =>
    match k c1 with
    | (Ok o2, c2, t2) => (Ok (o1 ++ o2), c2, t1 ++ t2)
    | (o, c2, t2) => (o, c2, t1 ++ t2)
    end
  | other => other
  end.
Definition ev_rret (o : bytes) (c : rctx) : ev_rres := (Ok o, c, []).
Definition ev_rfail (o : outcome bytes) (c : rctx) : ev_rres := (o, c, []).

(* ---------------------------------------------------------------- callbacks, ApplyFilter, CallFunction *)
Definition ev_callback (cb : cb_kind) (v : value) : outcome value :=
  match cb with
  | CbId => Ok v
  | CbFail n => Err (ESentinel n)
  | CbConst w => Ok w
  end.

Definition ev_registered (reg : list (bytes * bytes)) (name : bytes) : bool :=
  match assoc_bytes reg name with Some _ => true | None => false end.

(* ctx.ApplyFilter: the sandbox policy, then the environment's filter of that name (a custom one shadows the
   core one), then the built-in escape for an environment without it *)
Definition ev_apply_filter (env : ev_env) (c : rctx) (name : bytes) (v : value) (args : list value) : ev_res :=
  if rc_sandboxed c && negb (ev_filter_allowed env name) then (Err ESecurity, [])
  else
    match assoc_bytes (e_filters env) name with
    | Some cb => (ev_callback cb v, [TrFilter name])
    | None =>
      if ev_registered reg_GetFilters name then (apply_builtin_filter name v args, [TrFilter name])
      else if bytes_eqb name b#"e" || bytes_eqb name b#"escape" then
        (match vo_to_str v with Some s => Ok (VStr (escape_fallback s)) | None => Unmodelled end, [])
      else (Err EOther, [])
    end.

(* callLengthFunction, reachable for the name count only (length is a registered function) *)
Definition ev_count_function (args : list value) : outcome value :=
  match args with
  | [a] =>
    match vo_view a with
    | KStr s => Ok (VInt (Z.of_nat (length s)))
    | KList _ xs => Ok (VInt (Z.of_nat (length xs)))
    | KMap _ kvs => Ok (VInt (Z.of_nat (length kvs)))
    | KOther => Unmodelled
    | _ => Ok (VInt 0)
    end
  | _ => Err EOther
  end.

(* ctx.CallFunction *)
Definition ev_call_function (env : ev_env) (c : rctx) (name : bytes) (args : list value) : ev_res :=
  if rc_sandboxed c && negb (ev_function_allowed env name) then (Err ESecurity, [])
  else
    match assoc_bytes (e_functions env) name with
    | Some cb => (ev_callback cb (match args with a :: _ => a | [] => VNull end), [TrFunction name])
    | None =>
      if ev_registered reg_GetFunctions name then (apply_builtin_function name args, [TrFunction name])
      else if bytes_eqb name b#"count" then (ev_count_function args, [TrFunction name])
      else
        match rc_get_macro c name with
        | Some (tpl, nm) => (Ok (VCallable tpl nm args), [])
        | None => (Err EOther, [])
        end
    end.

(* the fallback of a module.name(...) call, which is what _self.name(...) takes: a macro of that name first, as
   in a plain name(...) call, then ctx.CallFunction *)
Definition ev_self_call (env : ev_env) (c : rctx) (name : bytes) (args : list value) : ev_res :=
  match rc_get_macro c name with
  | Some (tpl, nm) => (Ok (VCallable tpl nm args), [])
  | None => ev_call_function env c name args
  end.

(* a test of the environment *)
Definition ev_call_test (env : ev_env) (name : bytes) (v : value) (args : list value) : ev_res :=
  match assoc_bytes (e_tests env) name with
  | Some cb => (match cb with
                | CbId => Ok (VBool (match v with VNull => false | _ => true end))   (* the spy test: value is not nil *)
                | CbFail n => Err (ESentinel n)
                | CbConst (VBool b) => Ok (VBool b)
                | CbConst _ => Unmodelled
                end, [TrTest name])
  | None =>
    if ev_registered reg_GetTests name then (apply_builtin_test name v args, [TrTest name])
    else (Err EOther, [])
  end.

(* ---------------------------------------------------------------- binary operators: evaluateBinaryOp *)
Definition ev_float (z : Z) : outcome value := if vo_in_range z then Ok (VFloat z) else Unmodelled.

(* both operands through toNumber: Some (x, y), or why not *)
Inductive ev_nums := NBoth (x y : Z) | NNot | NUnk.
Definition ev_two_numbers (l r : value) : ev_nums :=
  match vo_to_number l with
  | NumUnk => NUnk
  | NumNo => match vo_to_number r with NumUnk => NUnk | _ => NNot end
  | NumI x => match vo_to_number r with NumI y => NBoth x y | NumNo => NNot | NumUnk => NUnk end
  end.

Definition ev_pow_limit : Z := 64%Z.

Definition ev_arith (o : binop) (x y : Z) : outcome value :=
  match o with
  | BAdd => ev_float (x + y)
  | BSub => ev_float (x - y)
  | BMul => ev_float (x * y)
  | BDiv => if (y =? 0)%Z then Err EOther
            else if negb (Z.rem x y =? 0)%Z then Unmodelled
            else ev_float (Z.quot x y)
  | BMod => if (y =? 0)%Z then Err EOther else ev_float (Z.rem x y)
  | BPow => if (y <? 0)%Z then Unmodelled
            else if ((ev_pow_limit <? y) && (1 <? Z.abs x))%Z then Unmodelled
            else if ((x =? 0) && (y =? 0))%Z then ev_float 1
            else ev_float (Z.pow x (if (ev_pow_limit <? y)%Z then (2 + Z.rem y 2)%Z else y))
  | BLt => Ok (VBool (x <? y)%Z)
  | BGt => Ok (VBool (y <? x)%Z)
  | BLe => Ok (VBool (x <=? y)%Z)
  | BGe => Ok (VBool (y <=? x)%Z)
  | _ => Unmodelled
  end.

Definition ev_opt_bool (o : option bool) (neg : bool) : outcome value :=
  match o with Some b => Ok (VBool (if neg then negb b else b)) | None => Unmodelled end.

Definition ev_binop (o : binop) (l r : value) : outcome value :=
  match o with
  | BAdd =>
    match ev_two_numbers l r with
    | NBoth x y => ev_arith BAdd x y
    | NUnk => Unmodelled
    | NNot =>
      match l with
      | VStr ls => match vo_to_str r with Some rs => Ok (VStr (ls ++ rs)) | None => Unmodelled end
      | _ => Err EOther
      end
    end
  | BSub | BMul | BDiv | BMod | BPow | BLt | BGt | BLe | BGe =>
    match ev_two_numbers l r with
    | NBoth x y => ev_arith o x y
    | NUnk => Unmodelled
    | NNot => Err EOther
    end
  | BEq => ev_opt_bool (vo_equals l r) false
  | BNe => ev_opt_bool (vo_equals l r) true
  | BAnd => Ok (VBool (vo_to_bool l && vo_to_bool r))
  | BOr => Ok (VBool (vo_to_bool l || vo_to_bool r))
  | BConcat =>
    match vo_to_str l, vo_to_str r with
    | Some a, Some b => Ok (VStr (a ++ b))
    | _, _ => Unmodelled
    end
  | BIn => ev_opt_bool (vo_contains r l) false
  | BNotIn => ev_opt_bool (vo_contains r l) true
  | BMatches => Unmodelled
  | BStartsWith =>
    match vo_to_str l, vo_to_str r with
    | Some a, Some p => Ok (VBool (prefixb p a))
    | _, _ => Unmodelled
    end
  | BEndsWith =>
    match vo_to_str l, vo_to_str r with
    | Some a, Some p => Ok (VBool (prefixb (rev p) (rev a)))
    | _, _ => Unmodelled
    end
  end.

Definition ev_unop (o : unop) (v : value) : outcome value :=
  match o with
  | UNot => Ok (VBool (negb (vo_to_bool v)))
  | UPos => match vo_to_number v with NumI z => Ok (VFloat z) | NumNo => Ok (VInt 0) | NumUnk => Unmodelled end
  | UNeg => match vo_to_number v with
            | NumI z => Ok (VFloat (- z))         (* plusZero: there is no negative zero *)
            | NumNo => Ok (VInt 0)
            | NumUnk => Unmodelled
            end
  end.

Definition ev_lit (l : lit) : outcome value :=
  match l with
  | LNull => Ok VNull
  | LBool b => Ok (VBool b)
  | LInt z => if ((0 <=? z) && (z <=? vo_bound))%Z then Ok (VInt z) else Unmodelled   (* a NUMBER token has no sign *)
  | LStr s => Ok (VStr s)
  end.

(* ---------------------------------------------------------------- list traversals of the evaluator *)
Fixpoint ev_list (ev : expr -> ev_res) (es : list expr) : outcome (list value) * ev_trace :=
  match es with
  | [] => ev_ret []
  | e :: r => ev_bind (ev e) (fun v => ev_bind (ev_list ev r) (fun vs => ev_ret (v :: vs)))
  end.

(* hash literal: key then value, pair by pair in source order; the key is its text; with equal keys the last
   pair written wins (its value takes the place of the earlier one) *)
Fixpoint ev_pairs (ev : expr -> ev_res) (kvs : list (expr * expr)) (acc : list (value * value)) : ev_res :=
  match kvs with
  | [] => ev_ret (VMap MAny acc)
  | (k, x) :: r =>
    ev_bind (ev k) (fun kv =>
    match vo_to_str kv with
    | None => ev_lift Unmodelled
    | Some ks => ev_bind (ev x) (fun xv => ev_pairs ev r (vo_map_set acc (VStr ks) xv))
    end)
  end.

(* DetectFilterChain: base expression and the filters, outermost first (the order their arguments are evaluated in) *)
Fixpoint ev_unchain (e : expr) : expr * list (bytes * list expr) :=
  match e with
  | EFilter e' f args => let '(b, ch) := ev_unchain e' in (b, (f, args) :: ch)
  | _ => (e, [])
  end.
Fixpoint ev_chain_args (ev : expr -> ev_res) (ch : list (bytes * list expr)) : outcome (list (bytes * list value)) * ev_trace :=
  match ch with
  | [] => ev_ret []
  | (f, args) :: r => ev_bind (ev_list ev args) (fun vs => ev_bind (ev_chain_args ev r) (fun rest => ev_ret ((f, vs) :: rest)))
  end.
(* ApplyFilterChain, innermost filter first *)
Fixpoint ev_apply_chain (env : ev_env) (c : rctx) (v : value) (ch : list (bytes * list value)) : ev_res :=
  match ch with
  | [] => ev_ret v
  | (f, vs) :: r => ev_bind (ev_apply_filter env c f v vs) (fun w => ev_apply_chain env c w r)
  end.

(* a filter expression through the chain route; nil_to_empty is the replacement of a nil result by the empty
   string that EvaluateExpression makes and the for-loop route does not *)
Definition ev_filter_chain (ev : expr -> ev_res) (env : ev_env) (c : rctx) (e : expr) (nil_to_empty : bool) : ev_res :=
  let '(base, ch) := ev_unchain e in
  ev_bind (ev_chain_args ev ch) (fun args =>
  ev_bind (ev base) (fun v =>
  ev_bind (ev_apply_chain env c v (rev args)) (fun w =>
  ev_ret (match w with VNull => if nil_to_empty then VStr [] else VNull | _ => w end)))).

(* x is defined, on a variable and on an attribute access *)
Definition ev_defined_var (c : rctx) (x : bytes) : ev_res :=
  match rc_own_var c x with
  | Some _ => ev_ret (VBool true)
  | None =>
    if rc_hack_name x then ev_lift Unmodelled
    else ev_ret (VBool (match rc_get_var c x with VNull => false | _ => true end))
  end.
Definition ev_defined_attr (ev : expr -> ev_res) (o : expr) (a : bytes) : ev_res :=
  match ev o with
  | (Ok obj, t) =>
    match obj with
    | VNull => (Ok (VBool false), t)
    | VMap MAny kvs => (Ok (VBool (match vo_map_find kvs (VStr a) with Some _ => true | None => false end)), t)
    | _ => (match vo_get_attr obj a with
            | Ok _ => Ok (VBool true)
            | Err _ => Ok (VBool false)
            | OutOfFuel => OutOfFuel
            | Unmodelled => Unmodelled
            end, t)
    end
  | (Err e, t) => (Err e, t)                   (* a failure of the object expression is reported (aee56e1) *)
  | (o', t) => (ev_cast o' Unmodelled, t)
  end.

(* the macro a bare name denotes: ctx.GetMacro, unless this context itself has a variable of that name (a macro
   parameter or a variable set in the body hides a macro of the same name, 8789b1e) *)
Definition ev_var_macro (c : rctx) (x : bytes) : option (bytes * bytes) :=
  match rc_own_var c x with Some _ => None | None => rc_get_macro c x end.

(* the sandbox check at the top of EvaluateExpression: function and filter nodes by name *)
Definition ev_sandbox_denies (env : ev_env) (c : rctx) (e : expr) : bool :=
  rc_sandboxed c &&
  match e_policy env with
  | None => false
  | Some _ =>
    match e with
    | ECall f _ | EModCall _ f _ => negb (ev_function_allowed env f)
    | EFilter _ f _ => negb (ev_filter_allowed env f)
    | _ => false
    end
  end.

(* one level of EvaluateExpression; ev evaluates sub-expressions in the same context *)
Definition ev_expr (ev : expr -> ev_res) (env : ev_env) (c : rctx) (e : expr) : ev_res :=
  if ev_sandbox_denies env c e then (Err ESecurity, [])
  else
  match e with
  | ELit l => ev_lift (ev_lit l)
  | EVar x =>
    (* a macro of that name first, unless this context itself has a variable of that name *)
    match ev_var_macro c x with
    | Some (tpl, nm) => ev_ret (VMacro tpl nm)
    | None => if rc_hack_name x then ev_lift Unmodelled else ev_ret (rc_get_var c x)
    end
  | EAttr o a => ev_bind (ev o) (fun obj => ev_lift (vo_get_attr obj a))
  | EItem o i => ev_bind (ev o) (fun ov => ev_bind (ev i) (fun iv => ev_lift (vo_get_item ov iv)))
  | EUn o a => ev_bind (ev a) (fun v => ev_lift (ev_unop o v))
  | EBin o a b =>
    ev_bind (ev a) (fun l =>
    match o with
    | BAnd => if vo_to_bool l then ev_bind (ev b) (fun r => ev_lift (ev_binop BAnd l r)) else ev_ret (VBool false)
    | BOr => if vo_to_bool l then ev_ret (VBool true) else ev_bind (ev b) (fun r => ev_lift (ev_binop BOr l r))
    | _ => ev_bind (ev b) (fun r => ev_lift (ev_binop o l r))
    end)
  | ECond q a b => ev_bind (ev q) (fun qv => if vo_to_bool qv then ev a else ev b)
  | EArr es => ev_bind (ev_list ev es) (fun vs => ev_ret (VList LAny vs))
  | EHash kvs => ev_pairs ev kvs []
  | EFilter _ _ _ => ev_filter_chain ev env c e true
  | ECall f args =>
    match rc_get_macro c f with
    | Some (tpl, nm) => ev_bind (ev_list ev args) (fun vs => ev_ret (VCallable tpl nm vs))
    | None =>
      ev_bind (ev_list ev args) (fun vs =>
      ev_bind (ev_call_function env c f vs) (fun r =>
      ev_ret (match r with
              | VNull => if bytes_eqb f b#"range" || bytes_eqb f b#"length" then VList LAny [] else VNull
              | _ => r
              end)))
    end
  | EModCall m f args =>
    ev_bind (ev m) (fun mo =>
    ev_bind (ev_list ev args) (fun vs =>
    match mo with
    | VMap MAny kvs =>
      match vo_map_find kvs (VStr f) with
      | Some (VMacro tpl nm) => ev_ret (VCallable tpl nm vs)
      | _ => ev_self_call env c f vs
      end
    | _ => ev_self_call env c f vs
    end))
  | ETest a t args neg =>
    let r :=
      if bytes_eqb t b#"defined" then
        match a with
        | EAttr o attr => ev_defined_attr ev o attr
        | EVar x => ev_defined_var c x
        | _ => ev_bind (ev a) (fun v => ev_bind (ev_list ev args) (fun vs => ev_call_test env t v vs))
        end
      else ev_bind (ev a) (fun v => ev_bind (ev_list ev args) (fun vs => ev_call_test env t v vs)) in
    if neg then ev_bind r (fun v => ev_ret (VBool (negb (vo_to_bool v)))) else r
  end.

Fixpoint eval (fuel : nat) (env : ev_env) (c : rctx) (e : expr) {struct fuel} : ev_res :=
  match fuel with
  | O => (OutOfFuel, [])
  | S fu => ev_expr (eval fu env c) env c e
  end.

(* ================================================================ rendering *)

(* ---------------------------------------------------------------- if *)
(* IfNode.Render: the first condition that is true selects its body; otherwise the else branch, if any *)
Fixpoint ev_if (ev : rctx -> expr -> ev_res) (rend : rctx -> list node -> ev_rres) (c : rctx)
               (branches : list (expr * list node)) (els : option (list node)) : ev_rres :=
  match branches with
  | [] => match els with Some b => rend c b | None => ev_rret [] c end
  | (cond, body) :: rest =>
    ev_rexpr (ev c cond) c (fun v => if vo_to_bool v then rend c body else ev_if ev rend c rest els)
  end.

(* ---------------------------------------------------------------- for *)
(* the loop variable of iteration i (from 0) of n *)
Definition ev_loop_record (i n : Z) : value :=
  VMap MAny [ (VStr b#"index", VInt (i + 1)); (VStr b#"index0", VInt i);
              (VStr b#"revindex", VInt (n - i)); (VStr b#"revindex0", VInt (n - i - 1));
              (VStr b#"first", VBool (i =? 0)%Z); (VStr b#"last", VBool (i =? n - 1)%Z);
              (VStr b#"length", VInt n) ].

(* what the loop ranges over: (key, value) per iteration; None when there is nothing to iterate by kind *)
Fixpoint ev_indexed (i : Z) (xs : list value) : list (value * value) :=
  match xs with
  | [] => []
  | x :: r => (VInt i, x) :: ev_indexed (i + 1) r
  end.
Definition ev_loop_items_of (seq : value) : option (list (value * value)) :=
  match vo_view seq with
  | KList _ xs => Some (ev_indexed 0 xs)
  | KMap _ kvs => Some (vo_sorted_entries kvs)
  | KStr s => Some (ev_indexed 0 (map VStr (u8_chars s)))
  | _ => None
  end.

(* the variables an iteration starts with: value variable, key variable, loop -- written in this order into the
   context the loop runs in *)
Definition ev_iter_ctx (c : rctx) (k : option bytes) (v : bytes) (n i : Z) (item : value * value) : rctx :=
  let c1 := rc_set_var c v (snd item) in
  let c2 := match k with Some kv => rc_set_var c1 kv (fst item) | None => c1 end in
  rc_set_var c2 b#"loop" (ev_loop_record i n).

(* the iterations: ONE context threaded through them *)
Fixpoint ev_loop_items (body : rctx -> ev_rres) (k : option bytes) (v : bytes) (n i : Z)
                       (items : list (value * value)) (c : rctx) : ev_rres :=
  match items with
  | [] => ev_rret [] c
  | it :: rest => ev_rseq (body (ev_iter_ctx c k v n i it)) (ev_loop_items body k v n (i + 1) rest)
  end.

(* renderForLoop *)
Definition ev_for_loop (rend : rctx -> list node -> ev_rres) (c : rctx) (k : option bytes) (v : bytes)
                       (seq : value) (body : list node) (els : option (list node)) : ev_rres :=
  let run_else := match els with Some b => rend c b | None => ev_rret [] c end in
  match ev_loop_items_of seq with
  | None => run_else
  | Some [] => run_else
  | Some items =>
    let '(r, c', t) := ev_loop_items (fun c0 => rend c0 body) k v (Z.of_nat (length items)) 0 items c in
    (* the deferred restoration of the enclosing loop variable, registered only if this context had one *)
    (r, match rc_own_var c b#"loop" with Some outer => rc_set_var c' b#"loop" outer | None => c' end, t)
  end.

(* the sequence of a for tag: a filter expression is evaluated by the loop itself (chain route, a nil result
   stays nil); a variable whose name contains a bar would take a legacy route no tokenised name reaches *)
Definition ev_for_seq (ev : rctx -> expr -> ev_res) (env : ev_env) (c : rctx) (seq : expr) : ev_res :=
  match seq with
  | EFilter _ _ _ => ev_filter_chain (ev c) env c seq false
  | EVar x => if existsb (Byte.eqb x7c) x then ev_lift Unmodelled else ev c seq
  | _ => ev c seq
  end.

Definition ev_for (ev : rctx -> expr -> ev_res) (rend : rctx -> list node -> ev_rres) (env : ev_env) (c : rctx)
                  (k : option bytes) (v : bytes) (seq : expr) (body : list node) (els : option (list node)) : ev_rres :=
  ev_rexpr (ev_for_seq ev env c seq) c (fun sv => ev_for_loop rend c k v sv body els).

(* ---------------------------------------------------------------- set *)
(* Values are immutable in the model. The only Go object a rendering mutates in place is the loop map; a
   variable that keeps a reference to it would change with later iterations. Assigning a value that contains
   the current loop record, or a function value, is therefore outside the model. *)
Definition ev_set_guard (c : rctx) (v : value) : bool :=
  vo_has_callable v ||
  match rc_get_var c b#"loop" with
  | VNull => false
  | l => vo_contains_value l v
  end.

Definition ev_set (ev : rctx -> expr -> ev_res) (c : rctx) (x : bytes) (e : expr) : ev_rres :=
  ev_rexpr (ev c e) c (fun v =>
    if ev_set_guard c v then ev_rfail Unmodelled c else ev_rret [] (rc_set_var c x v)).

(* ---------------------------------------------------------------- macros *)
(* CallMacro binds, in order: the argument, else the default evaluated in the CALLER's context, else nil *)
Fixpoint ev_bind_params (evc : expr -> ev_res) (params : list (bytes * option expr)) (args : list value)
                        (mc : rctx) : outcome rctx * ev_trace :=
  match params with
  | [] => ev_ret mc
  | (p, d) :: rest =>
    match args with
    | a :: args' => ev_bind_params evc rest args' (rc_set_var mc p a)
    | [] =>
      match d with
      | Some de => ev_bind (evc de) (fun v => ev_bind_params evc rest [] (rc_set_var mc p v))
      | None => ev_bind_params evc rest [] (rc_set_var mc p VNull)
      end
    end
  end.

(* a text node of a macro body that contains {{ is run through a string interpreter the model leaves out *)
Definition ev_text_has_open (s : bytes) : bool := vo_has_sub b#"{{" s.
Definition ev_macro_body_plain (body : list node) : bool :=
  forallb (fun n => match n with NText s => negb (ev_text_has_open s) | _ => true end) body.

(* MacroNode.CallMacro from context c; the caller's context is not written *)
Definition ev_call_macro (ev : rctx -> expr -> ev_res) (rend : rctx -> list node -> ev_rres) (env : ev_env)
                         (c : rctx) (tpl name : bytes) (args : list value) : outcome bytes * ev_trace :=
  match ts_find_macro env tpl name with
  | None => (Unmodelled, [])
  | Some (params, body) =>
    if existsb vo_has_callable args || negb (ev_macro_body_plain body) then (Unmodelled, [])
    else
      (* the macros of the defining template are visible in the body whatever the caller sees *)
      let mc0 := rc_with_macros (rc_derive (rc_fresh [] tpl) (Some c) (rc_sandboxed c) (rc_last_loaded c))
                                (ts_sibling_macros env tpl) in
      ev_bind (ev_bind_params (ev c) params args mc0) (fun mc =>
        let '(r, _, t) := rend mc body in (r, t))
  end.

(* the function parent() returns, run by a print tag: renders the next definition up the chain in the same
   context, one level deeper; the level is put back when it is done *)
Definition ev_parent_call (rend : rctx -> list node -> ev_rres) (c : rctx) : ev_rres :=
  match rc_cur_block c with
  | None => ev_rfail (Err EOther) c
  | Some _ =>
    let depth := S (rc_depth c) in
    match nth_error (rc_cur_defs c) depth with
    | None => ev_rfail (Err EOther) c
    | Some d =>
      let '(r, c', t) := rend (rc_with_depth c depth (bd_tpl d)) (bd_body d) in
      (r, rc_with_depth c' (depth - 1) (rc_tpl c), t)
    end
  end.

(* ---------------------------------------------------------------- print *)
Definition ev_print (ev : rctx -> expr -> ev_res) (rend : rctx -> list node -> ev_rres) (env : ev_env)
                    (c : rctx) (e : expr) : ev_rres :=
  ev_rexpr (ev c e) c (fun v =>
    match vo_view v with
    | KCallable tpl nm args => let '(r, t) := ev_call_macro ev rend env c tpl nm args in (r, c, t)
    | KParent => ev_parent_call rend c
    | _ => match vo_to_str v with Some s => ev_rret s c | None => ev_rfail Unmodelled c end
    end).

(* ---------------------------------------------------------------- blocks *)
Definition ev_chain_defs (c : rctx) (name : bytes) : list blockdef :=
  match rc_chain c with
  | Some ch => match assoc_bytes ch name with Some ds => ds | None => [] end
  | None => []
  end.

(* BlockNode.Render: the definitions of the name along the extends chain, most derived first, this block
   behind them if it is not among them; the first one is rendered, also when it is empty *)
Definition ev_block (rend : rctx -> list node -> ev_rres) (c : rctx) (name : bytes) (body : list node) : ev_rres :=
  let defs0 := ev_chain_defs c name in
  let registered := existsb (fun d => bytes_eqb (bd_tpl d) (rc_tpl c)) defs0 in
  let defs := if registered then defs0 else defs0 ++ [MkBd (rc_tpl c) body] in
  match defs with
  | [] => ev_rfail Unmodelled c      (* not reachable: defs holds this block at least *)
  | d :: _ =>
    let '(r, c', t) := rend (rc_with_current c (Some name) defs 0 (bd_tpl d)) (bd_body d) in
    (r, rc_with_current c' (rc_cur_block c) (rc_cur_defs c) (rc_depth c) (rc_tpl c), t)
  end.

(* ---------------------------------------------------------------- loading *)
(* names that start with ./ or ../ are resolved against the directory of the current template: not modelled *)
Definition ev_relative (name : bytes) : bool := prefixb b#"./" name || prefixb b#"../" name.

(* the template-name expression of extends / include / import / from, its text, engine.Load *)
Definition ev_load (ev : rctx -> expr -> ev_res) (env : ev_env) (c : rctx) (e : expr)
  : outcome (bytes * option (list node)) * ev_trace :=
  ev_bind (ev c e) (fun v =>
    match vo_to_str v with
    | None => ev_lift Unmodelled
    | Some name =>
      if ev_relative name then ev_lift Unmodelled
      else (Ok (name, ts_lookup env name), [TrLoad name])
    end).

(* ---------------------------------------------------------------- extends and the root of a template *)
Fixpoint ev_parent_blocks (top : list node) (pb : list (bytes * list node)) : list (bytes * list node) :=
  match top with
  | [] => pb
  | NBlock name body :: r =>
    ev_parent_blocks r (match assoc_bytes pb name with Some _ => pb | None => rc_assoc_set pb name body end)
  | _ :: r => ev_parent_blocks r pb
  end.

(* ExtendsNode.Render from the child's context c: the parent template is rendered in a new context holding a
   copy of the child's own variables and the child's PARENT chain (so that a template included through Clone,
   whose variables live in its parent contexts, still sees them after extends), no macros, the blocks and the
   chain of definitions collected so far *)
Definition ev_extends (ev : rctx -> expr -> ev_res) (root : rctx -> list node -> ev_rres) (env : ev_env)
                      (c : rctx) (e : expr) : ev_rres :=
  let c1 := rc_with_extending c true in
  ev_rexpr (ev_load ev env c1 e) c1 (fun nl =>
    match snd nl with
    | None => ev_rfail (Err ENotFound) c1
    | Some pnodes =>
      let name := fst nl in
      let pc :=
        MkRc (rc_vars c1) (rc_parent c1) [] (rc_blocks c1)
             (ev_parent_blocks pnodes (rc_parent_blocks c1))
             (match rc_chain c1 with Some ((_ :: _) as ch) => Some ch | _ => None end)
             true None [] 0 false (rc_sandboxed c1) (Some name) name in
      let '(r, _, t) := root pc pnodes in (r, c1, t)
    end).

(* the first pass of RootNode.Render over the top-level nodes: register blocks, remember the extends tag *)
Fixpoint ev_first_pass (top : list node) (has_child : bool) (blocks : list (bytes * list node)) (ext : option expr)
  : list (bytes * list node) * option expr :=
  match top with
  | [] => (blocks, ext)
  | NBlock name body :: r =>
    let unset := match assoc_bytes blocks name with Some (_ :: _) => false | _ => true end in
    ev_first_pass r has_child (if negb has_child || unset then rc_assoc_set blocks name body else blocks) ext
  | NExtends e :: r => ev_first_pass r has_child blocks (Some e)
  | _ :: r => ev_first_pass r has_child blocks ext
  end.

(* RootNode.Render *)
Definition ev_root (ev : rctx -> expr -> ev_res) (rend root : rctx -> list node -> ev_rres) (env : ev_env)
                   (c : rctx) (ns : list node) : ev_rres :=
  if negb (ts_wf ns) then ev_rfail Unmodelled c
  else
    let '(blocks, ext) := ev_first_pass ns (rc_extending c) (rc_blocks c) None in
    let chain := ts_collect (rc_tpl c) ns (match rc_chain c with Some ch => ch | None => [] end) in
    let c1 := rc_with_blocks c blocks (Some chain) in
    match ext with
    | Some e => ev_extends ev root env c1 e
    | None => rend c1 ns
    end.

(* ---------------------------------------------------------------- include *)
(* the variables of with { ... }: the parser keeps one expression per name (the last) in a Go map; they are
   evaluated in the INCLUDER's context, in that map's iteration order (the model: source order; with more than one
   entry the order is observable only through traces and through which of two failing entries is reported), and
   bound in the context of the include *)
Fixpoint ev_with_dedup (kvs : list (expr * expr)) : option (list (bytes * expr)) :=
  match kvs with
  | [] => Some []
  | (ELit (LStr k), x) :: r =>
    match ev_with_dedup r with
    | Some r' => Some (if existsb (fun p => bytes_eqb (fst p) k) r' then r' else (k, x) :: r')
    | None => None
    end
  | _ => None
  end.
Fixpoint ev_with_vars (evc : expr -> ev_res) (kvs : list (bytes * expr)) (ic : rctx) : outcome rctx * ev_trace :=
  match kvs with
  | [] => ev_ret ic
  | (k, x) :: r =>
    ev_bind (evc x) (fun v =>
      if vo_has_callable v then ev_lift Unmodelled else ev_with_vars evc r (rc_set_var ic k v))
  end.

Definition ev_include (ev : rctx -> expr -> ev_res) (root : rctx -> list node -> ev_rres) (env : ev_env) (c : rctx)
                      (e : expr) (withs : option expr) (ignore_missing only sandboxed : bool) : ev_rres :=
  ev_rexpr (ev_load ev env c e) c (fun nl =>
    match snd nl with
    | None => if ignore_missing then ev_rret [] c else ev_rfail (Err ENotFound) c
    | Some inodes =>
      let name := fst nl in
      let vars : option (list (bytes * expr)) :=
        match withs with
        | None => Some []
        | Some (EHash kvs) => ev_with_dedup kvs
        | Some _ => None
        end in
      match vars with
      | None => ev_rfail Unmodelled c
      | Some kvs =>
        let mk (base : rctx) : rctx :=
          MkRc (rc_vars base) (rc_parent base) (rc_macros base) (rc_blocks base) (rc_parent_blocks base) (rc_chain base)
               (rc_extending base) (rc_cur_block base) (rc_cur_defs base) (rc_depth base) (rc_in_parent_call base)
               (rc_sandboxed base) (Some name) name in
        if negb only && negb sandboxed then
          (* a clone of the including context, with or without variables *)
          ev_rexpr (ev_with_vars (ev c) kvs (mk (rc_clone c))) c (fun ic =>
            let '(r, _, t) := root ic inodes in (r, c, t))
        else
          (* only: nothing; sandboxed without only: every variable the includer can read *)
          let base := rc_fresh (if only then [] else rc_visible_vars c) name in
          let ic0 := mk (rc_derive base None (rc_sandboxed c || sandboxed) None) in
          if sandboxed && (match e_policy env with None => true | Some _ => false end) then ev_rfail (Err EOther) c
          else
            ev_rexpr (ev_with_vars (ev c) kvs ic0) c (fun ic =>
              let '(r, _, t) := root ic inodes in (r, c, t))
      end
    end).

(* ---------------------------------------------------------------- import, from *)
(* render the imported template in a fresh context and keep its macro table *)
Definition ev_import_macros (ev : rctx -> expr -> ev_res) (root : rctx -> list node -> ev_rres) (env : ev_env) (c : rctx)
                            (e : expr) : outcome (list (bytes * (bytes * bytes))) * rctx * ev_trace :=
  match ev_load ev env c e with
  | (Ok (name, Some inodes), t) =>
    let ic := rc_derive (rc_fresh [] name) None (rc_sandboxed c) (Some name) in
    match root ic inodes with
    | (Ok _, ic', t2) => (Ok (rc_macros ic'), c, t ++ t2)
    | (o, _, t2) => (ev_cast o Unmodelled, c, t ++ t2)
    end
  | (Ok (_, None), t) => (Err ENotFound, c, t)
  | (o, t) => (ev_cast o Unmodelled, c, t)
  end.

Definition ev_import (ev : rctx -> expr -> ev_res) (root : rctx -> list node -> ev_rres) (env : ev_env) (c : rctx)
                     (e : expr) (alias : bytes) : ev_rres :=
  match ev_import_macros ev root env c e with
  | (Ok ms, _, t) =>
    (Ok [], rc_set_var c alias (VMap MAny (map (fun m => (VStr (fst m), VMacro (fst (snd m)) (snd (snd m)))) ms)), t)
  | (o, _, t) => (ev_cast o Unmodelled, c, t)
  end.

Fixpoint ev_from_names (ms : list (bytes * (bytes * bytes))) (names : list (bytes * bytes)) (c : rctx) : outcome rctx :=
  match names with
  | [] => Ok c
  | (m, alias) :: r =>
    match assoc_bytes ms m with
    | None => Err EOther
    | Some ref => ev_from_names ms r (rc_with_macros c (rc_assoc_set (rc_macros c) alias ref))
    end
  end.

Definition ev_from (ev : rctx -> expr -> ev_res) (root : rctx -> list node -> ev_rres) (env : ev_env) (c : rctx)
                   (e : expr) (names : list (bytes * bytes)) : ev_rres :=
  match ev_import_macros ev root env c e with
  | (Ok ms, _, t) =>
    (* the parser keeps one alias per macro name: a macro listed twice is outside the model *)
    if negb (ts_no_dup (map fst names)) then (Unmodelled, c, t)
    else match ev_from_names ms names c with
         | Ok c' => (Ok [], c', t)
         | o => (ev_cast o Unmodelled, c, t)
         end
  | (o, _, t) => (ev_cast o Unmodelled, c, t)
  end.

(* ---------------------------------------------------------------- apply, spaceless *)
Definition ev_apply (ev : rctx -> expr -> ev_res) (rend : rctx -> list node -> ev_rres) (env : ev_env) (c : rctx)
                    (f : bytes) (args : list expr) (body : list node) : ev_rres :=
  match rend c body with
  | (Ok content, c1, t1) =>
    match ev_bind (ev_list (ev c1) args) (fun vs =>
          ev_bind (ev_apply_filter env c1 f (VStr content) vs) (fun w => ev_opt (vo_to_str w))) with
    | (Ok s, t2) => (Ok s, c1, t1 ++ t2)
    | (o, t2) => (ev_cast o Unmodelled, c1, t1 ++ t2)
    end
  | other => other
  end.

(* SpacelessNode.Render: an error of the filter is the error of the tag (36660ef) *)
Definition ev_spaceless (rend : rctx -> list node -> ev_rres) (env : ev_env) (c : rctx) (body : list node) : ev_rres :=
  match rend c body with
  | (Ok content, c1, t1) =>
    match ev_apply_filter env c1 b#"spaceless" (VStr content) [] with
    | (Ok w, t2) => (match vo_to_str w with Some s => Ok s | None => Unmodelled end, c1, t1 ++ t2)
    | (Err e, t2) => (Err e, c1, t1 ++ t2)
    | (o, t2) => (ev_cast o Unmodelled, c1, t1 ++ t2)
    end
  | other => other
  end.

(* ---------------------------------------------------------------- one node *)
Definition render_node (ev : rctx -> expr -> ev_res) (rend root : rctx -> list node -> ev_rres) (env : ev_env)
                       (c : rctx) (n : node) : ev_rres :=
  match n with
  | NText s => ev_rret s c
  | NVerbatim s => ev_rret s c
  | NPrint e => ev_print ev rend env c e
  | NIf branches els => ev_if ev rend c branches els
  | NFor k v seq body els => ev_for ev rend env c k v seq body els
  | NSet x e => ev_set ev c x e
  | NDo e => ev_rexpr (ev c e) c (fun _ => ev_rret [] c)
  | NBlock name body => ev_block rend c name body
  | NExtends e => ev_extends ev root env c e
  | NInclude e withs ign only sb => ev_include ev root env c e withs ign only sb
  | NMacro name _ _ => ev_rret [] (rc_with_macros c (rc_assoc_set (rc_macros c) name (rc_tpl c, name)))
  | NImport e alias => ev_import ev root env c e alias
  | NFrom e names => ev_from ev root env c e names
  | NApply f args body => ev_apply ev rend env c f args body
  | NSpaceless body => ev_spaceless rend env c body
  end.

(* ---------------------------------------------------------------- the two mutually recursive renderers *)
Fixpoint render (fuel : nat) (env : ev_env) (c : rctx) (ns : list node) {struct fuel} : ev_rres :=
  match fuel with
  | O => (OutOfFuel, c, [])
  | S fu =>
    match ns with
    | [] => ev_rret [] c
    | n :: rest =>
      ev_rseq (render_node (eval fu env) (render fu env) (render_root fu env) env c n)
              (fun c1 => render fu env c1 rest)
    end
  end
with render_root (fuel : nat) (env : ev_env) (c : rctx) (ns : list node) {struct fuel} : ev_rres :=
  match fuel with
  | O => (OutOfFuel, c, [])
  | S fu => ev_root (eval fu env) (render fu env) (render_root fu env) env c ns
  end.

(* Engine.Render(name, vars) *)
Definition render_template (fuel : nat) (env : ev_env) (name : bytes) (vars : list (bytes * value)) : outcome bytes * ev_trace :=
  match ts_lookup env name with
  | None => (Err ENotFound, [TrLoad name])
  | Some ns =>
    let c := rc_derive (rc_fresh vars name) None false (Some name) in
    let '(r, _, t) := render_root fuel env c ns in (r, TrLoad name :: t)
  end.
