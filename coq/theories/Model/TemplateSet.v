(* The template set of the evaluator model and the static walks over a parsed template:
   engine.Load on registered templates, node.go collectBlocks, and the lookup of a macro definition by
   (template, name). No proofs here. *)
From Twig Require Import Base.Bytes Model.Ast Model.Value Model.ValueOps Model.Ctx.

(* engine.Load(name) for registered templates: a flat map name -> parsed template *)
Definition ts_lookup (env : ev_env) (name : bytes) : option (list node) := assoc_bytes (e_tpls env) name.

(* every block of a node list in the order collectBlocks appends them: a block, then the blocks inside it;
   if bodies in order, then the else branch; for body, then its else branch; apply and spaceless bodies.
   Macro bodies are not visited. *)
Fixpoint ts_blocks_node (n : node) : list (bytes * list node) :=
  let fix go (l : list node) : list (bytes * list node) :=
    match l with [] => [] | x :: r => ts_blocks_node x ++ go r end in
  match n with
  | NBlock name body => (name, body) :: go body
  | NIf brs els =>
    (fix gob (l : list (expr * list node)) : list (bytes * list node) :=
       match l with [] => [] | (_, b) :: r => go b ++ gob r end) brs
    ++ match els with Some b => go b | None => [] end
  | NFor _ _ _ body els => go body ++ match els with Some b => go b | None => [] end
  | NApply _ _ body => go body
  | NSpaceless body => go body
  | _ => []
  end.
Definition ts_blocks (ns : list node) : list (bytes * list node) := flat_map ts_blocks_node ns.

(* chain[name] = append(chain[name], def) *)
Fixpoint ts_chain_append (chain : list (bytes * list blockdef)) (name : bytes) (d : blockdef) : list (bytes * list blockdef) :=
  match chain with
  | [] => [(name, [d])]
  | (k, ds) :: r => if bytes_eqb k name then (k, ds ++ [d]) :: r else (k, ds) :: ts_chain_append r name d
  end.
(* collectBlocks(nodes, chain) for the nodes of template tpl *)
Definition ts_collect (tpl : bytes) (ns : list node) (chain : list (bytes * list blockdef)) : list (bytes * list blockdef) :=
  fold_left (fun ch nb => ts_chain_append ch (fst nb) (MkBd tpl (snd nb))) (ts_blocks ns) chain.

(* every macro definition of a node list, wherever it stands (macro tags may stand inside any body) *)
Fixpoint ts_macros_node (n : node) : list (bytes * (list (bytes * option expr) * list node)) :=
  let fix go (l : list node) : list (bytes * (list (bytes * option expr) * list node)) :=
    match l with [] => [] | x :: r => ts_macros_node x ++ go r end in
  match n with
  | NMacro name params body => (name, (params, body)) :: go body
  | NBlock _ body => go body
  | NIf brs els =>
    (fix gob (l : list (expr * list node)) : list (bytes * (list (bytes * option expr) * list node)) :=
       match l with [] => [] | (_, b) :: r => go b ++ gob r end) brs
    ++ match els with Some b => go b | None => [] end
  | NFor _ _ _ body els => go body ++ match els with Some b => go b | None => [] end
  | NApply _ _ body => go body
  | NSpaceless body => go body
  | _ => []
  end.
Definition ts_macros (ns : list node) : list (bytes * (list (bytes * option expr) * list node)) := flat_map ts_macros_node ns.

Fixpoint ts_no_dup (l : list bytes) : bool :=
  match l with
  | [] => true
  | x :: r => negb (ev_mem x r) && ts_no_dup r
  end.
(* the identification of blocks and macros by (template, name) is exact for this template *)
Definition ts_wf (ns : list node) : bool :=
  ts_no_dup (map fst (ts_blocks ns)) && ts_no_dup (map fst (ts_macros ns)).

(* the macro node registered under (tpl, name) *)
Definition ts_find_macro (env : ev_env) (tpl name : bytes) : option (list (bytes * option expr) * list node) :=
  match ts_lookup env tpl with
  | Some ns => assoc_bytes (ts_macros ns) name
  | None => None
  end.

(* linkMacros: the table every macro of a template carries -- all macros defined in that template, by name;
   CallMacro copies it into the macro context *)
Definition ts_sibling_macros (env : ev_env) (tpl : bytes) : list (bytes * (bytes * bytes)) :=
  match ts_lookup env tpl with
  | Some ns => map (fun m => (fst m, (tpl, fst m))) (ts_macros ns)
  | None => []
  end.
