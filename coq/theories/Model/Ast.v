(* Abstract syntax shared by the expression parser, the pretty printers and the evaluator.
   Mirrors expr.go / node.go (DESIGN.md Appendix A.1). Types only: no functions, no proofs. *)
From Twig Require Import Base.Bytes.

Inductive lit := LNull | LBool (b : bool) | LInt (z : Z) | LStr (s : bytes).
Inductive unop := UNot | UNeg | UPos.
Inductive binop := BOr | BAnd | BEq | BNe | BLt | BGt | BLe | BGe | BIn | BNotIn | BMatches
                 | BStartsWith | BEndsWith | BAdd | BSub | BConcat | BMul | BDiv | BMod | BPow.

Inductive expr :=
| ELit (l : lit)
| EVar (x : bytes)
| EAttr (e : expr) (a : bytes)                     (* e.a *)
| EItem (e i : expr)                               (* e[i] *)
| EUn (o : unop) (e : expr)
| EBin (o : binop) (l r : expr)
| ECond (c t f : expr)                             (* c ? t : f *)
| EArr (es : list expr)
| EHash (kvs : list (expr * expr))                 (* source order kept in the model *)
| EFilter (e : expr) (f : bytes) (args : list expr)
| ECall (f : bytes) (args : list expr)             (* function or local macro call *)
| EModCall (m : expr) (f : bytes) (args : list expr)   (* m.f(args): imported module / _self *)
| ETest (e : expr) (t : bytes) (args : list expr) (neg : bool).   (* e is [not] t(args) *)

Inductive node :=
| NText (s : bytes)
| NPrint (e : expr)
| NIf (branches : list (expr * list node)) (els : option (list node))
| NFor (k : option bytes) (v : bytes) (seq : expr) (body : list node) (els : option (list node))
| NSet (x : bytes) (e : expr)
| NDo (e : expr)
| NBlock (name : bytes) (body : list node)
| NExtends (e : expr)
| NInclude (e : expr) (withs : option expr) (ignore_missing only sandboxed : bool)
| NMacro (name : bytes) (params : list (bytes * option expr)) (body : list node)
| NImport (e : expr) (alias : bytes)
| NFrom (e : expr) (names : list (bytes * bytes))   (* (macro name, alias) *)
| NVerbatim (s : bytes)
| NApply (f : bytes) (args : list expr) (body : list node)
| NSpaceless (body : list node).

(* outcome of every fuelled model function; error classes are what the correspondence compares *)
Inductive errclass := ENotFound | ESecurity | EParse | ESentinel (id : nat) | EOther.
Inductive outcome (A : Type) := Ok (a : A) | Err (e : errclass) | OutOfFuel | Unmodelled.
Arguments Ok {A} a.
Arguments Err {A} e.
Arguments OutOfFuel {A}.
Arguments Unmodelled {A}.
