(* Model of the built-in filters of extension.go that property C19 names, over the shared value
   universe. Each filter is written the way the Go function is written: the same dispatch on the
   dynamic type (the type switch for string / []interface{} / map[string]interface{} first, then the
   reflection path for typed slices, arrays and typed maps), the same order of checks, the same
   helper functions (toString, toInt, length, isEmptyValue, join, sortedMapKeys).
   Strings are byte strings; the filters that work on code points (length, first, last, reverse,
   slice, capitalize, trim, upper, lower, split with a long delimiter, for loops) go through
   Base/Utf8F.v, which decodes the way Go does.
   The model is the model of the code with the repairs of notes/proposed-fixes/C19-*.patch applied;
   the behaviour of the unrepaired code is kept in the _pinned definitions at the end, for the
   refutation witnesses of Properties/C19.v.
   No proofs here. *)
From Twig Require Import Base.Bytes Base.Utf8F Model.Value.
From Coq Require Import NArith ZArith.
Local Open Scope Z_scope.

(* result of a filter call: a value, an error returned by the filter, a Go panic, or outside the model *)
Inductive flt_res := FltOk (v : value) | FltErr | FltPanic | FltUnmod.

(* ------------------------------------------------------------------ text of numbers *)
Definition flt_digit (n : N) : byte := uf8_byte (48 + n).

(* decimal digits of n, most significant first; fuel = number of bits + 1 *)
Fixpoint flt_n_digits (fuel : nat) (n : N) (acc : bytes) : bytes :=
  match fuel with
  | O => acc
  | S f =>
    let d := flt_digit (N.modulo n 10) in
    if N.ltb n 10 then d :: acc else flt_n_digits f (N.div n 10) (d :: acc)
  end.
Definition flt_n_to_dec (n : N) : bytes := flt_n_digits (S (N.size_nat n)) n [].

(* strconv.Itoa *)
Definition flt_z_to_dec (z : Z) : bytes :=
  match z with
  | Z0 => [x30]
  | Zpos p => flt_n_to_dec (Npos p)
  | Zneg p => x2d :: flt_n_to_dec (Npos p)
  end.

Definition flt_is_digit (b : byte) : bool := uf8_in 48 57 (uf8_n b).

Fixpoint flt_digits_val (acc : Z) (s : bytes) : option Z :=
  match s with
  | [] => Some acc
  | b :: r => if flt_is_digit b then flt_digits_val (acc * 10 + (Z.of_N (uf8_n b) - 48)) r else None
  end.

(* strconv.Atoi: optional sign, at least one digit, nothing else (range errors are outside the model) *)
Definition flt_atoi (s : bytes) : option Z :=
  match s with
  | [] => None
  | b :: r =>
    if Byte.eqb b x2d then match r with [] => None | _ => option_map Z.opp (flt_digits_val 0 r) end
    else if Byte.eqb b x2b then match r with [] => None | _ => flt_digits_val 0 r end
    else flt_digits_val 0 s
  end.

(* ------------------------------------------------------------------ toString, toInt *)
(* toString: nil, string, int, bool have a text form in the model; containers are printed by
   fmt %v in Go, which the model leaves out *)
Definition flt_to_string (v : value) : option bytes :=
  match v with
  | VNull => Some []
  | VBool true => Some b#"true"
  | VBool false => Some b#"false"
  | VInt z => Some (flt_z_to_dec z)
  | VStr s => Some s
  | _ => None
  end.

(* toInt: None is the error return *)
Definition flt_to_int (v : value) : option Z :=
  match v with
  | VInt z => Some z
  | VStr s => flt_atoi s
  | VBool true => Some 1
  | VBool false => Some 0
  | _ => None
  end.

(* ------------------------------------------------------------------ order on strings and sorting *)
(* Go's < on strings: bytewise lexicographic *)
Fixpoint flt_bytes_ltb (a b : bytes) : bool :=
  match a, b with
  | _, [] => false
  | [], _ :: _ => true
  | x :: a', y :: b' =>
    if N.ltb (uf8_n x) (uf8_n y) then true
    else if N.ltb (uf8_n y) (uf8_n x) then false
    else flt_bytes_ltb a' b'
  end.

(* stable insertion sort by a less-than test (sort.SliceStable; sort.Slice up to the order of ties) *)
Fixpoint flt_insert {A} (lt : A -> A -> bool) (x : A) (l : list A) : list A :=
  match l with
  | [] => [x]
  | y :: r => if lt y x then y :: flt_insert lt x r else x :: l
  end.
Definition flt_isort {A} (lt : A -> A -> bool) (l : list A) : list A :=
  fold_right (flt_insert lt) [] l.

(* mapKeyString: the text of a map key *)
Definition flt_key_string (k : value) : bytes :=
  match flt_to_string k with Some s => s | None => [] end.

(* sortedMapKeys: entries in the order of the text of their keys *)
Definition flt_entry_lt (a b : value * value) : bool :=
  flt_bytes_ltb (flt_key_string (fst a)) (flt_key_string (fst b)).
Definition flt_sorted_entries (kvs : list (value * value)) : list (value * value) :=
  flt_isort flt_entry_lt kvs.

(* ------------------------------------------------------------------ isEmptyValue, length, elements *)
(* isEmptyValue: nil, the empty string, false, an empty list or map of any representation.
   Numbers are never empty (C19-empty-zero-consistent.patch). *)
Definition flt_is_empty (v : value) : bool :=
  match v with
  | VNull => true
  | VStr s => match s with [] => true | _ => false end
  | VBool b => negb b
  | VList _ xs => match xs with [] => true | _ => false end
  | VMap _ kvs => match kvs with [] => true | _ => false end
  | _ => false
  end.

(* length: code points of a string, elements of a list or map, 0 for nil, an error otherwise *)
Definition flt_length (v : value) : flt_res :=
  match v with
  | VNull => FltOk (VInt 0)
  | VStr s => FltOk (VInt (Z.of_nat (uf8_count s)))
  | VList _ xs => FltOk (VInt (Z.of_nat (length xs)))
  | VMap _ kvs => FltOk (VInt (Z.of_nat (length kvs)))
  | _ => FltErr
  end.

(* the values a for loop binds, in order (renderForLoop): the code points of a string, each as a
   string of its own; the elements of a list; the values of a map in the order of its keys *)
Definition flt_elements (v : value) : list value :=
  match v with
  | VStr s => map (fun c => VStr (uf8_enc1 c)) (uf8_cps s)
  | VList _ xs => xs
  | VMap _ kvs => map snd (flt_sorted_entries kvs)
  | _ => []
  end.

(* ------------------------------------------------------------------ first, last *)
Definition flt_first (v : value) : flt_res :=
  match v with
  | VNull => FltOk VNull
  | VStr s => FltOk (VStr (match uf8_chunks s with ch :: _ => snd ch | [] => [] end))
  | VList _ xs => FltOk (match xs with x :: _ => x | [] => VNull end)
  | VMap _ kvs => FltOk (match flt_sorted_entries kvs with e :: _ => snd e | [] => VNull end)
  | _ => FltErr
  end.

(* last has no case for maps *)
Definition flt_last (v : value) : flt_res :=
  match v with
  | VNull => FltOk VNull
  | VStr s => FltOk (VStr (snd (last (uf8_chunks s) (0%N, []))))
  | VList _ xs => FltOk (last xs VNull)
  | _ => FltErr
  end.

(* ------------------------------------------------------------------ reverse *)
(* a slice made by reflection has the type of the input slice; an array has no slice type of its
   own and gives a slice of its element type (arrays are arrays of interface values in the model) *)
Definition flt_slice_tag (t : ltag) : ltag := match t with LArray => LAny | _ => t end.

Definition flt_reverse (v : value) : flt_res :=
  match v with
  | VNull => FltOk VNull
  | VStr s => FltOk (VStr (uf8_encode (rev (uf8_cps s))))
  | VList LAny xs => FltOk (VList LAny (rev xs))
  | VList t xs => FltOk (VList (flt_slice_tag t) (rev xs))
  | _ => FltErr
  end.

(* ------------------------------------------------------------------ slice *)
(* the index computation, as it is written in each of the four branches of filterSlice:
   None = the early return of an empty result *)
Definition flt_slice_bounds (count start : Z) (len : option Z) : option (Z * Z) :=
  let start := if start <? 0 then count + start else start in
  let start := if start <? 0 then 0 else start in
  if start >=? count then None
  else
    let e :=
      match len with
      | None => count
      | Some l =>
        if l >=? 0 then (let e := start + l in if e >? count then count else e)
        else (let e := count + l in if e <? start then start else e)
      end in
    Some (start, e).

(* the items of xs[start:end], in a slice of their own *)
Definition flt_sub {A} (l : list A) (b : option (Z * Z)) : list A :=
  match b with
  | None => []
  | Some (s, e) => firstn (Z.to_nat (e - s)) (skipn (Z.to_nat s) l)
  end.

(* the same computation again, as the reflection branch copies element by element *)
Definition flt_slice_bounds_refl (count start : Z) (len : option Z) : option (Z * Z) :=
  let start := if start <? 0 then count + start else start in
  let start := if start <? 0 then 0 else start in
  if start >=? count then None
  else
    let e :=
      match len with
      | None => count
      | Some l =>
        if l >=? 0 then (let e := start + l in if e >? count then count else e)
        else (let e := count + l in if e <? start then start else e)
      end in
    Some (start, e).

Fixpoint flt_copy_range {A} (fuel : nat) (i : nat) (l : list A) : list A :=
  match fuel with
  | O => []
  | S f => match nth_error l i with Some x => x :: flt_copy_range f (S i) l | None => [] end
  end.
Definition flt_sub_refl {A} (l : list A) (b : option (Z * Z)) : list A :=
  match b with
  | None => []
  | Some (s, e) => flt_copy_range (Z.to_nat (e - s)) (Z.to_nat s) l
  end.

(* the arguments: start is required and converted with toInt; the length is used when it is
   present and not nil *)
Definition flt_slice_args (args : list value) : option (Z * option Z) :=
  match args with
  | [] => None
  | a :: r =>
    match flt_to_int a with
    | None => None
    | Some start =>
      match r with
      | [] => Some (start, None)
      | VNull :: _ => Some (start, None)
      | l :: _ => match flt_to_int l with Some len => Some (start, Some len) | None => None end
      end
    end
  end.

Definition flt_slice (v : value) (args : list value) : flt_res :=
  match v with
  | VNull => FltOk VNull
  | _ =>
    match flt_slice_args args with
    | None => FltErr
    | Some (start, len) =>
      match v with
      | VStr s =>
        let cps := uf8_cps s in
        FltOk (VStr (uf8_encode (flt_sub cps (flt_slice_bounds (Z.of_nat (length cps)) start len))))
      | VList LAny xs =>
        FltOk (VList LAny (flt_sub xs (flt_slice_bounds (Z.of_nat (length xs)) start len)))
      | VList t xs =>
        FltOk (VList (flt_slice_tag t) (flt_sub_refl xs (flt_slice_bounds_refl (Z.of_nat (length xs)) start len)))
      | _ => FltErr
      end
    end
  end.

(* ------------------------------------------------------------------ join, split *)
Fixpoint flt_join_bytes (sep : bytes) (l : list bytes) : bytes :=
  match l with
  | [] => []
  | [x] => x
  | x :: r => x ++ sep ++ flt_join_bytes sep r
  end.

Fixpoint flt_all_strings (l : list value) : option (list bytes) :=
  match l with
  | [] => Some []
  | x :: r =>
    match flt_to_string x, flt_all_strings r with
    | Some s, Some t => Some (s :: t)
    | _, _ => None
    end
  end.

(* the delimiter argument counts only when it is a string *)
Definition flt_delim_arg (args : list value) : bytes :=
  match args with VStr d :: _ => d | _ => [x20] end.

Definition flt_join (v : value) (args : list value) : flt_res :=
  let d := flt_delim_arg args in
  match v with
  | VNull => FltOk (VStr [])
  | VList _ xs =>
    match flt_all_strings xs with
    | Some l => FltOk (VStr (flt_join_bytes d l))
    | None => FltUnmod
    end
  | _ => match flt_to_string v with Some s => FltOk (VStr s) | None => FltUnmod end
  end.

(* strings.Split / SplitN on a one-byte separator: limit None = no limit, Some n = at most n pieces (n > 0) *)
Fixpoint flt_split_byte (b : byte) (limit : option nat) (cur : bytes) (s : bytes) : list bytes :=
  match s with
  | [] => [rev cur]
  | c :: r =>
    match limit with
    | Some (S O) => [rev cur ++ s]
    | _ =>
      if Byte.eqb c b then rev cur :: flt_split_byte b (option_map pred limit) [] r
      else flt_split_byte b limit (c :: cur) r
    end
  end.

(* regexp Split on a character class: the pieces between the code points of the class *)
Fixpoint flt_split_class (cls : N -> bool) (limit : option nat) (cur : bytes) (cs : list (N * bytes)) : list bytes :=
  match cs with
  | [] => [cur]
  | ch :: r =>
    match limit with
    | Some (S O) => [cur ++ concat (map snd cs)]
    | _ =>
      if cls (fst ch) then cur :: flt_split_class cls (option_map pred limit) [] r
      else flt_split_class cls limit (cur ++ snd ch) r
    end
  end.

(* strings.Split with an empty separator: one piece per code point, the bytes as they are *)
Fixpoint flt_explode (limit : option nat) (cs : list (N * bytes)) : list bytes :=
  match cs with
  | [] => []
  | ch :: r =>
    match limit with
    | Some (S O) => [concat (map snd cs)]
    | _ => snd ch :: flt_explode (option_map pred limit) r
    end
  end.

Definition flt_mem_n (l : list N) (c : N) : bool := existsb (N.eqb c) l.

(* the limit argument: an int, or a string that Atoi accepts; a limit that is not positive means none *)
Definition flt_limit_arg (args : list value) : option nat :=
  match args with
  | _ :: l :: _ =>
    match (match l with VInt z => Some z | VStr s => flt_atoi s | _ => None end) with
    | Some z => if z >? 0 then Some (Z.to_nat z) else None
    | None => None
    end
  | _ => None
  end.

Definition flt_split_str (d : bytes) (limit : option nat) (s : bytes) : list bytes :=
  match d with
  | [] => flt_explode limit (uf8_chunks s)
  | [b] => flt_split_byte b limit [] s
  | _ =>
    match s with
    | [] => [[]]
    | _ => flt_split_class (flt_mem_n (uf8_cps d)) limit [] (uf8_chunks s)
    end
  end.

(* filterSplit returns a []string *)
Definition flt_split (v : value) (args : list value) : flt_res :=
  match flt_to_string v with
  | None => FltUnmod
  | Some s => FltOk (VList LStrings (map VStr (flt_split_str (flt_delim_arg args) (flt_limit_arg args) s)))
  end.

(* ------------------------------------------------------------------ default *)
Definition flt_default (v : value) (args : list value) : flt_res :=
  match args with
  | [] => FltOk v
  | d :: _ => if flt_is_empty v then FltOk d else FltOk v
  end.

(* ------------------------------------------------------------------ merge, keys *)
Fixpoint flt_list_args (args : list value) : list value :=
  match args with
  | [] => []
  | VList _ ys :: r => ys ++ flt_list_args r
  | _ :: r => flt_list_args r
  end.

Definition flt_value_is_str (k : bytes) (v : value) : bool :=
  match v with VStr s => bytes_eqb s k | _ => false end.

(* resultMap[key] = value *)
Fixpoint flt_map_set (m : list (value * value)) (k : bytes) (x : value) : list (value * value) :=
  match m with
  | [] => [(VStr k, x)]
  | (k', y) :: r => if flt_value_is_str k k' then (k', x) :: r else (k', y) :: flt_map_set r k x
  end.

Definition flt_map_add_all (m : list (value * value)) (kvs : list (value * value)) : list (value * value) :=
  fold_left (fun acc e => flt_map_set acc (flt_key_string (fst e)) (snd e)) kvs m.

Fixpoint flt_map_args (m : list (value * value)) (args : list value) : list (value * value) :=
  match args with
  | [] => m
  | VMap _ kvs :: r => flt_map_args (flt_map_add_all m kvs) r
  | _ :: r => flt_map_args m r
  end.

(* merge: a list and the list arguments are concatenated into a []interface{}; a map and the map
   arguments are merged into a map[string]interface{} under the text of the keys, later entries
   replacing earlier ones (C19-merge-typed-maps.patch); anything else is returned as it is *)
Definition flt_merge (v : value) (args : list value) : flt_res :=
  match v with
  | VList _ xs => FltOk (VList LAny (xs ++ flt_list_args args))
  | VMap _ kvs => FltOk (VMap MAny (flt_map_args (flt_map_add_all [] kvs) args))
  | _ => FltOk v
  end.

(* keys: a []string for map[string]interface{}, a []interface{} of the keys themselves for the
   typed maps, both in the order of the text of the keys *)
Definition flt_keys (v : value) : flt_res :=
  match v with
  | VNull => FltOk VNull
  | VMap MAny kvs => FltOk (VList LStrings (map fst (flt_sorted_entries kvs)))
  | VMap _ kvs => FltOk (VList LAny (map fst (flt_sorted_entries kvs)))
  | VPtr _ => FltUnmod
  | _ => FltErr
  end.

(* ------------------------------------------------------------------ sort *)
Definition flt_is_int (v : value) : bool := match v with VInt _ => true | _ => false end.
(* the number and the text an element is compared by (an element of a []int is an int, every element
   that reaches the text comparison has a text: the other cases are fillers) *)
Definition flt_int_key (v : value) : Z := match v with VInt z => z | _ => 0 end.
Definition flt_text_key (v : value) : bytes := match flt_to_string v with Some s => s | None => [] end.
Definition flt_int_lt (a b : value) : bool := flt_int_key a <? flt_int_key b.
Definition flt_text_lt (a b : value) : bool := flt_bytes_ltb (flt_text_key a) (flt_text_key b).

(* numbers are ordered by value, everything else by text (C19-sort-numbers-by-value.patch) *)
Definition flt_sort_lt (xs : list value) : value -> value -> bool :=
  if forallb flt_is_int xs then flt_int_lt else flt_text_lt.

Definition flt_sort (v : value) : flt_res :=
  match v with
  | VNull => FltOk VNull
  | VList LStrings xs => FltOk (VList LAny (flt_isort flt_text_lt xs))     (* sort.Strings, then []interface{} *)
  | VList LInts xs => FltOk (VList LAny (flt_isort flt_int_lt xs))          (* sort.Ints, then []interface{} *)
  | VList LAny xs =>
    match flt_all_strings xs with
    | Some _ => FltOk (VList LAny (flt_isort (flt_sort_lt xs) xs))
    | None => FltUnmod
    end
  | VList LArray xs =>
    match flt_all_strings xs with
    | Some _ => FltOk (VList LAny (flt_isort (flt_sort_lt xs) xs))
    | None => FltUnmod
    end
  | _ => FltErr
  end.

(* ------------------------------------------------------------------ trim *)
(* unicode.IsSpace *)
Definition flt_is_space (c : N) : bool :=
  (uf8_in 9 13 c || N.eqb c 32 || N.eqb c 133 || N.eqb c 160 || N.eqb c 5760 || uf8_in 8192 8202 c
   || N.eqb c 8232 || N.eqb c 8233 || N.eqb c 8239 || N.eqb c 8287 || N.eqb c 12288)%bool.

Fixpoint flt_drop_while {A} (p : A -> bool) (l : list A) : list A :=
  match l with
  | [] => []
  | x :: r => if p x then flt_drop_while p r else l
  end.

(* strings.TrimFunc / strings.Trim on the decoded string: leading and trailing code points of the
   set go, the bytes in between stay as they are *)
Definition flt_trim_chunks (set : N -> bool) (cs : list (N * bytes)) : list (N * bytes) :=
  let p := fun ch : N * bytes => set (fst ch) in
  rev (flt_drop_while p (rev (flt_drop_while p cs))).
Definition flt_trim_bytes (set : N -> bool) (s : bytes) : bytes :=
  concat (map snd (flt_trim_chunks set (uf8_chunks s))).

Definition flt_trim (v : value) (args : list value) : flt_res :=
  match flt_to_string v with
  | None => FltUnmod
  | Some s =>
    match args with
    | [] => FltOk (VStr (flt_trim_bytes flt_is_space s))
    | a :: _ =>
      match flt_to_string a with
      | None => FltUnmod
      | Some [] => FltOk (VStr s)
      | Some cut => FltOk (VStr (flt_trim_bytes (flt_mem_n (uf8_cps cut)) s))
      end
    end
  end.

(* ------------------------------------------------------------------ upper, lower, capitalize *)
Section FltCase.
  (* unicode.ToUpper / unicode.ToLower on one code point *)
  Variables (flt_up flt_low : N -> N).

  (* strings.ToUpper = strings.Map(unicode.ToUpper, s): decoded, mapped, encoded again (an invalid
     byte comes out as U+FFFD) *)
  Definition flt_upper_bytes (s : bytes) : bytes := uf8_encode (map flt_up (uf8_cps s)).
  Definition flt_lower_bytes (s : bytes) : bytes := uf8_encode (map flt_low (uf8_cps s)).

  Definition flt_upper (v : value) : flt_res :=
    match flt_to_string v with Some s => FltOk (VStr (flt_upper_bytes s)) | None => FltUnmod end.
  Definition flt_lower (v : value) : flt_res :=
    match flt_to_string v with Some s => FltOk (VStr (flt_lower_bytes s)) | None => FltUnmod end.

  (* strings.Fields on the decoded string: maximal runs of code points that are not spaces *)
  Fixpoint flt_fields (cur : list N) (l : list N) : list (list N) :=
    match l with
    | [] => match cur with [] => [] | _ => [rev cur] end
    | c :: r =>
      if flt_is_space c then (match cur with [] => flt_fields [] r | _ => rev cur :: flt_fields [] r end)
      else flt_fields (c :: cur) r
    end.

  (* strings.ToUpper(word[:size]) + strings.ToLower(word[size:]) *)
  Definition flt_cap_word (w : list N) : list N :=
    match w with [] => [] | c :: r => flt_up c :: map flt_low r end.

  Definition flt_capitalize_bytes (s : bytes) : bytes :=
    flt_join_bytes [x20] (map (fun w => uf8_encode (flt_cap_word w)) (flt_fields [] (uf8_cps s))).

  Definition flt_capitalize (v : value) : flt_res :=
    match flt_to_string v with
    | Some s => FltOk (VStr (flt_capitalize_bytes s))
    | None => FltUnmod
    end.
End FltCase.

(* ------------------------------------------------------------------ abs, round, number_format on integers *)
(* toFloat64 of nil or of a container fails and the filter returns its input; the text of a string
   is parsed by strconv.ParseFloat, of which the model covers plain integers *)
Inductive flt_num := FNum (z : Z) | FNotNum | FNumUnmod.
Definition flt_to_num (v : value) : flt_num :=
  match v with
  | VInt z => FNum z
  | VBool true => FNum 1
  | VBool false => FNum 0
  | VStr s => match flt_atoi s with Some z => FNum z | None => FNumUnmod end
  | _ => FNotNum
  end.

Definition flt_abs (v : value) : flt_res :=
  match flt_to_num v with
  | FNum z => FltOk (VInt (Z.abs z))
  | FNotNum => FltOk v
  | FNumUnmod => FltUnmod
  end.

Inductive flt_rmethod := RCommon | RCeil | RFloor.

(* x / 10^k rounded to an integer: half away from zero, up, down *)
Definition flt_div_round (m : flt_rmethod) (x : Z) (d : Z) : Z :=
  match m with
  | RFloor => x / d
  | RCeil => - ((- x) / d)
  | RCommon => if x >=? 0 then (2 * x + d) / (2 * d) else - ((2 * (- x) + d) / (2 * d))
  end.

(* an integer rounded at precision p: unchanged for p >= 0, to a multiple of 10^-p otherwise *)
Definition flt_round_int (m : flt_rmethod) (z : Z) (p : Z) : Z :=
  if p >=? 0 then z else let d := 10 ^ (- p) in flt_div_round m z d * d.

Definition flt_ascii_lower (s : bytes) : option bytes :=
  if forallb (fun b => N.ltb (uf8_n b) 128) s
  then Some (map (fun b => if uf8_in 65 90 (uf8_n b) then uf8_byte (uf8_n b + 32) else b) s)
  else None.

Definition flt_method_arg (args : list value) : option flt_rmethod :=
  match args with
  | _ :: VStr m :: _ =>
    match flt_ascii_lower m with
    | None => None
    | Some l =>
      if bytes_eqb l b#"ceil" || bytes_eqb l b#"ceiling" then Some RCeil
      else if bytes_eqb l b#"floor" then Some RFloor else Some RCommon
    end
  | _ => Some RCommon
  end.

(* precision and decimals arguments: toInt when it succeeds, otherwise the default 0 *)
Definition flt_int_arg0 (args : list value) : Z :=
  match args with a :: _ => match flt_to_int a with Some z => z | None => 0 end | [] => 0 end.

Definition flt_round (v : value) (args : list value) : flt_res :=
  match flt_to_num v with
  | FNum z =>
    match flt_method_arg args with
    | Some m => FltOk (VInt (flt_round_int m z (flt_int_arg0 args)))
    | None => FltUnmod
    end
  | FNotNum => FltOk v
  | FNumUnmod => FltUnmod
  end.

(* digits in groups of three from the right, the separator between the groups *)
Fixpoint flt_group (sep : bytes) (digits : bytes) : bytes :=
  match digits with
  | [] => []
  | c :: r =>
    if (Nat.eqb (Nat.modulo (length r) 3) 0 && negb (Nat.eqb (length r) 0))%bool
    then c :: sep ++ flt_group sep r else c :: flt_group sep r
  end.

Definition flt_str_arg (n : nat) (dflt : bytes) (args : list value) : bytes :=
  match nth_error args n with Some (VStr s) => s | _ => dflt end.

(* number_format of an integer: sign, grouped digits, and decimals zeros after the point *)
Definition flt_number_format_int (z : Z) (decimals : Z) (point sep : bytes) : bytes :=
  let decimals := if decimals <? 0 then 0 else decimals in
  let ip := flt_group sep (flt_n_to_dec (Z.to_N (Z.abs z))) in
  let ip := if z <? 0 then x2d :: ip else ip in
  if decimals >? 0 then ip ++ point ++ repeat x30 (Z.to_nat decimals) else ip.

Definition flt_number_format (v : value) (args : list value) : flt_res :=
  match flt_to_num v with
  | FNum z =>
    FltOk (VStr (flt_number_format_int z (flt_int_arg0 args) (flt_str_arg 1 [x2e] args) (flt_str_arg 2 [x2c] args)))
  | FNotNum => FltOk v
  | FNumUnmod => FltUnmod
  end.

(* ------------------------------------------------------------------ the unrepaired code *)
(* what the same functions do in the tree without the proposed repairs, where that differs *)

(* reverse, slice and sort call reflect.MakeSlice with the array type *)
Definition flt_reverse_pinned (v : value) : flt_res :=
  match v with VList LArray _ => FltPanic | _ => flt_reverse v end.
Definition flt_slice_pinned (v : value) (args : list value) : flt_res :=
  match v with
  | VList LArray _ => match flt_slice_args args with Some _ => FltPanic | None => FltErr end
  | _ => flt_slice v args
  end.

(* []interface{} and the reflection path compare the text of the elements, numbers included *)
Definition flt_sort_pinned (v : value) : flt_res :=
  match v with
  | VList LAny xs =>
    match flt_all_strings xs with
    | Some _ => FltOk (VList LAny (flt_isort flt_text_lt xs))
    | None => FltUnmod
    end
  | VList LArray _ => FltPanic
  | _ => flt_sort v
  end.

(* merge on maps builds a map of the type of the receiver and panics on an entry of another type *)
Definition flt_mtag_eqb (a b : mtag) : bool :=
  match a, b with MAny, MAny | MStrStr, MStrStr | MIntStr, MIntStr | MStrInt, MStrInt => true | _, _ => false end.
Definition flt_merge_assignable (recv arg : mtag) : bool :=
  (flt_mtag_eqb recv arg || (flt_mtag_eqb recv MAny && (flt_mtag_eqb arg MStrStr || flt_mtag_eqb arg MStrInt)))%bool.
Definition flt_merge_pinned (v : value) (args : list value) : flt_res :=
  match v with
  | VMap t kvs =>
    if forallb (fun a => match a with VMap t' (_ :: _) => flt_merge_assignable t t' | _ => true end) args
    then FltOk (VMap t (flt_map_args (flt_map_add_all [] kvs) args))
    else FltPanic
  | _ => flt_merge v args
  end.

(* isEmptyValue: an int zero is empty, an int64 or float64 zero is not (the comparison of an
   interface value with the untyped constant 0 is a comparison with int 0) *)
Inductive flt_numrep := NRInt | NRInt64 | NRFloat64.
Definition flt_is_empty_pinned (rep : flt_numrep) (v : value) : bool :=
  match v, rep with
  | VInt z, NRInt => z =? 0
  | _, _ => flt_is_empty v
  end.

(* split with a delimiter of several bytes containing a dash: the dash forms a range in the
   character class; a descending range is a panic of regexp.MustCompile. None = that panic *)
Fixpoint flt_class_pinned (l : list N) (c : N) : option bool :=
  match l with
  | [] => Some false
  | lo :: 45%N :: hi :: r =>
    if N.ltb hi lo then None
    else if uf8_in lo hi c then Some true else flt_class_pinned r c
  | x :: r => if N.eqb x c then Some true else flt_class_pinned r c
  end.

Definition flt_split_pinned (v : value) (args : list value) : flt_res :=
  match flt_to_string v with
  | None => FltUnmod
  | Some s =>
    let d := flt_delim_arg args in
    match d with
    | _ :: _ :: _ =>
      match flt_class_pinned (uf8_cps d) 1114112%N with
      | None => FltPanic
      | Some _ =>
        let cls := fun c => match flt_class_pinned (uf8_cps d) c with Some b => b | None => false end in
        FltOk (VList LStrings (map VStr
          (match s with [] => [[]] | _ => flt_split_class cls (flt_limit_arg args) [] (uf8_chunks s) end)))
      end
    | _ => flt_split v args
    end
  end.
