(* C03: convertDateFormat (extension.go) as it is now: one pass over the bytes of the format, left to
   right; each byte is looked up in the letter table (as a one-byte key) and either its Go layout text
   or the byte itself is appended. The table is the map literal of the function, re-read by the
   translator (Gen/DateTable.v). No proofs here. *)
From Twig Require Import Base.Bytes Gen.DateTable.

(* replacements[format[i:i+1]]: the lookup of a one-byte key in the Go map *)
Definition date_lookup (tbl : list (bytes * bytes)) (c : byte) : option bytes := assoc_bytes tbl [c].

Fixpoint date_conv_with (tbl : list (bytes * bytes)) (s : bytes) : bytes :=
  match s with
  | [] => []
  | c :: r => match date_lookup tbl c with
              | Some g => g ++ date_conv_with tbl r
              | None => c :: date_conv_with tbl r
              end
  end.

Definition date_conv (s : bytes) : bytes := date_conv_with date_table_raw s.

(* no letter is listed twice with different targets *)
Fixpoint date_table_functionalb (tbl : list (bytes * bytes)) : bool :=
  match tbl with
  | [] => true
  | (k, v) :: r => forallb (fun kv => negb (bytes_eqb (fst kv) k) || bytes_eqb (snd kv) v) r && date_table_functionalb r
  end.

Definition date_letters : list bytes := map fst date_table_raw.
