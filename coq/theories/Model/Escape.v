(* Model of the escape filter: extension.go filterEscape -> escapeHTML -> html.EscapeString,
   and of the built-in fallback in render_filter.go ApplyFilter ("e"/"escape" when the environment
   has no such filter), which differs only in the reference used for the double quote. *)
From Twig Require Import Base.Bytes.

Definition c_amp : byte := x26.  (* & *)
Definition c_lt  : byte := x3c.  (* < *)
Definition c_gt  : byte := x3e.  (* > *)
Definition c_dq  : byte := x22.  (* double quote *)
Definition c_sq  : byte := x27.  (* single quote *)

Definition r_amp  : bytes := Eval cbv in b#"&amp;".
Definition r_lt   : bytes := Eval cbv in b#"&lt;".
Definition r_gt   : bytes := Eval cbv in b#"&gt;".
Definition r_dq   : bytes := Eval cbv in b#"&#34;".
Definition r_sq   : bytes := Eval cbv in b#"&#39;".
Definition r_quot : bytes := Eval cbv in b#"&quot;".

(* html.EscapeString: one replacement per byte, everything else copied *)
Definition esc1 (dq : bytes) (c : byte) : bytes :=
  if Byte.eqb c c_amp then r_amp
  else if Byte.eqb c c_lt then r_lt
  else if Byte.eqb c c_gt then r_gt
  else if Byte.eqb c c_dq then dq
  else if Byte.eqb c c_sq then r_sq
  else [c].

Definition escape_with (dq : bytes) (s : bytes) : bytes := flat_map (esc1 dq) s.
Definition escape : bytes -> bytes := escape_with r_dq.            (* registered filter *)
Definition escape_fallback : bytes -> bytes := escape_with r_quot. (* ApplyFilter's built-in *)

(* Reference decoder for exactly the references the two encoders emit. *)
Definition refs : list (bytes * byte) :=
  [(r_amp, c_amp); (r_lt, c_lt); (r_gt, c_gt); (r_dq, c_dq); (r_sq, c_sq); (r_quot, c_dq)].

Fixpoint match_ref (rs : list (bytes * byte)) (s : bytes) : option (byte * nat) :=
  match rs with
  | [] => None
  | (r, c) :: rs' => if prefixb r s then Some (c, length r) else match_ref rs' s
  end.

(* fuel = length of the input: every step consumes at least one byte *)
Fixpoint unescape_fuel (fuel : nat) (s : bytes) : bytes :=
  match fuel with
  | O => []
  | S f =>
    match s with
    | [] => []
    | c :: r =>
      match match_ref refs s with
      | Some (d, n) => d :: unescape_fuel f (skipn n s)
      | None => c :: unescape_fuel f r
      end
    end
  end.
Definition unescape (s : bytes) : bytes := unescape_fuel (length s) s.

Definition is_special (c : byte) : bool :=
  Byte.eqb c c_amp || Byte.eqb c c_lt || Byte.eqb c c_gt || Byte.eqb c c_dq || Byte.eqb c c_sq.
