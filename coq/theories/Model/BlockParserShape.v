(* The control skeleton of parseOuterTemplate and of every block handler AS THE MODEL WAS WRITTEN AGAINST IT
   (Model/BlockParser.v): every if / for condition, every index expression on the token slice, every
   assignment to tokenIndex, every call of parseExpression / parseOuterTemplate and every return, in source
   order (double quotes of the Go text written as single quotes).  tools/gogen/gen_tokens.go re-reads the same
   skeletons from the working tree into Gen/TokenKinds.v on every run and Proofs/RobustProofs.v
   (bp_skeletons_match) compares the two by computation: a handler that gains or loses a bounds test or a
   token access no longer matches, and the C05 theorems stop compiling until the model is reviewed.
   Reading guide: tok[e] under a condition that tests e against len(tokens) first is a guarded access
   (tok_at with the short-circuit branch in the model); tok[parser.tokenIndex-2], tok[parser.tokenIndex-1]
   at handler entry and the tok[...] inside the fmt.Errorf of a ret err that follows a failed
   idx >= len(tokens) test are the unguarded ones (bp_read_back / bp_err_back in the model). *)
From Twig Require Import Base.Bytes.

Definition bp_skel_parseOuterTemplate : list bytes := [
  b#"for p.tokenIndex < len(p.tokens) && p.tokens[p.tokenIndex].Type != TOKEN_EOF";
  b#"tok[p.tokenIndex]";
  b#"tok[p.tokenIndex]";
  b#"switch token.Type";
  b#"case TOKEN_TEXT";
  b#"adv ++";
  b#"case TOKEN_VAR_START, TOKEN_VAR_START_TRIM";
  b#"adv ++";
  b#"call parseExpression";
  b#"if err != nil";
  b#"ret err";
  b#"if p.tokenIndex >= len(p.tokens) || !isVarEndToken(p.tokens[p.tokenIndex].Type)";
  b#"tok[p.tokenIndex]";
  b#"ret err";
  b#"adv ++";
  b#"case TOKEN_BLOCK_START, TOKEN_BLOCK_START_TRIM";
  b#"adv ++";
  b#"if p.tokenIndex >= len(p.tokens) || p.tokens[p.tokenIndex].Type != TOKEN_NAME";
  b#"tok[p.tokenIndex]";
  b#"ret err";
  b#"tok[p.tokenIndex]";
  b#"adv ++";
  b#"if blockName == 'endif' || blockName == 'endfor' || blockName == 'endblock' || blockName == 'endmacro' || blockName == 'else' || blockName == 'elseif' || blockName == 'endspaceless' || blockName == 'endapply' || blockName == 'endverbatim'";
  b#"adv -= 2";
  b#"ret ok";
  b#"if !ok";
  b#"ret err";
  b#"if err != nil";
  b#"ret err";
  b#"case TOKEN_COMMENT_START";
  b#"adv ++";
  b#"for p.tokenIndex < len(p.tokens) && p.tokens[p.tokenIndex].Type != TOKEN_COMMENT_END";
  b#"tok[p.tokenIndex]";
  b#"adv ++";
  b#"if p.tokenIndex >= len(p.tokens)";
  b#"ret err";
  b#"adv ++";
  b#"case TOKEN_VAR_END_TRIM, TOKEN_BLOCK_END_TRIM";
  b#"ret err";
  b#"case TOKEN_NAME, TOKEN_PUNCTUATION, TOKEN_OPERATOR, TOKEN_STRING, TOKEN_NUMBER";
  b#"if token.Type == TOKEN_NAME && p.tokenIndex + 1 < len(p.tokens) && p.tokens[p.tokenIndex + 1].Type == TOKEN_NAME && p.tokens[p.tokenIndex + 1].Line == token.Line";
  b#"tok[p.tokenIndex + 1]";
  b#"tok[p.tokenIndex + 1]";
  b#"adv ++";
  b#"for p.tokenIndex < len(p.tokens) && p.tokens[p.tokenIndex].Type == TOKEN_NAME && p.tokens[p.tokenIndex].Line == currentLine";
  b#"tok[p.tokenIndex]";
  b#"tok[p.tokenIndex]";
  b#"tok[p.tokenIndex]";
  b#"adv ++";
  b#"adv ++";
  b#"default";
  b#"ret err";
  b#"ret ok"
].

Definition bp_skel_parseIf : list bytes := [
  b#"tok[parser.tokenIndex - 2]";
  b#"call parseExpression";
  b#"if err != nil";
  b#"ret err";
  b#"if parser.tokenIndex >= len(parser.tokens) || (parser.tokens[parser.tokenIndex].Type != TOKEN_BLOCK_END && parser.tokens[parser.tokenIndex].Type != TOKEN_BLOCK_END_TRIM)";
  b#"tok[parser.tokenIndex]";
  b#"tok[parser.tokenIndex]";
  b#"ret err";
  b#"adv ++";
  b#"call parseOuterTemplate";
  b#"if err != nil";
  b#"ret err";
  b#"for ";
  b#"if parser.tokenIndex >= len(parser.tokens) || !isBlockStartToken(parser.tokens[parser.tokenIndex].Type)";
  b#"tok[parser.tokenIndex]";
  b#"ret err";
  b#"adv ++";
  b#"if parser.tokenIndex >= len(parser.tokens) || parser.tokens[parser.tokenIndex].Type != TOKEN_NAME";
  b#"tok[parser.tokenIndex]";
  b#"ret err";
  b#"tok[parser.tokenIndex - 1]";
  b#"tok[parser.tokenIndex]";
  b#"tok[parser.tokenIndex]";
  b#"adv ++";
  b#"if blockName == 'elseif'";
  b#"if hasElseBlock";
  b#"ret err";
  b#"call parseExpression";
  b#"if err != nil";
  b#"ret err";
  b#"if parser.tokenIndex >= len(parser.tokens) || !isBlockEndToken(parser.tokens[parser.tokenIndex].Type)";
  b#"tok[parser.tokenIndex]";
  b#"ret err";
  b#"adv ++";
  b#"call parseOuterTemplate";
  b#"if err != nil";
  b#"ret err";
  b#"if blockName == 'else'";
  b#"if hasElseBlock";
  b#"ret err";
  b#"if parser.tokenIndex >= len(parser.tokens) || !isBlockEndToken(parser.tokens[parser.tokenIndex].Type)";
  b#"tok[parser.tokenIndex]";
  b#"ret err";
  b#"adv ++";
  b#"call parseOuterTemplate";
  b#"if err != nil";
  b#"ret err";
  b#"if blockName == 'endif'";
  b#"if parser.tokenIndex >= len(parser.tokens) || !isBlockEndToken(parser.tokens[parser.tokenIndex].Type)";
  b#"tok[parser.tokenIndex]";
  b#"ret err";
  b#"adv ++";
  b#"break";
  b#"ret err";
  b#"ret ok"
].

Definition bp_skel_parseFor : list bytes := [
  b#"tok[parser.tokenIndex - 2]";
  b#"if parser.tokenIndex >= len(parser.tokens) || parser.tokens[parser.tokenIndex].Type != TOKEN_NAME";
  b#"tok[parser.tokenIndex]";
  b#"ret err";
  b#"tok[parser.tokenIndex]";
  b#"adv ++";
  b#"if parser.tokenIndex < len(parser.tokens) && parser.tokens[parser.tokenIndex].Type == TOKEN_PUNCTUATION && parser.tokens[parser.tokenIndex].Value == ','";
  b#"tok[parser.tokenIndex]";
  b#"tok[parser.tokenIndex]";
  b#"adv ++";
  b#"if parser.tokenIndex >= len(parser.tokens) || parser.tokens[parser.tokenIndex].Type != TOKEN_NAME";
  b#"tok[parser.tokenIndex]";
  b#"ret err";
  b#"tok[parser.tokenIndex]";
  b#"adv ++";
  b#"if parser.tokenIndex >= len(parser.tokens) || parser.tokens[parser.tokenIndex].Type != TOKEN_NAME || parser.tokens[parser.tokenIndex].Value != 'in'";
  b#"tok[parser.tokenIndex]";
  b#"tok[parser.tokenIndex]";
  b#"ret err";
  b#"adv ++";
  b#"call parseExpression";
  b#"if err != nil";
  b#"ret err";
  b#"if IsDebugEnabled()";
  b#"if parser.tokenIndex >= len(parser.tokens) || !isBlockEndToken(parser.tokens[parser.tokenIndex].Type)";
  b#"tok[parser.tokenIndex]";
  b#"ret err";
  b#"adv ++";
  b#"call parseOuterTemplate";
  b#"if err != nil";
  b#"ret err";
  b#"if parser.tokenIndex < len(parser.tokens) && isBlockStartToken(parser.tokens[parser.tokenIndex].Type)";
  b#"tok[parser.tokenIndex]";
  b#"adv ++";
  b#"if parser.tokenIndex >= len(parser.tokens) || parser.tokens[parser.tokenIndex].Type != TOKEN_NAME";
  b#"tok[parser.tokenIndex]";
  b#"ret err";
  b#"tok[parser.tokenIndex - 1]";
  b#"if parser.tokens[parser.tokenIndex].Value == 'else'";
  b#"tok[parser.tokenIndex]";
  b#"adv ++";
  b#"if parser.tokenIndex >= len(parser.tokens) || !isBlockEndToken(parser.tokens[parser.tokenIndex].Type)";
  b#"tok[parser.tokenIndex]";
  b#"ret err";
  b#"tok[parser.tokenIndex - 1]";
  b#"adv ++";
  b#"call parseOuterTemplate";
  b#"if err != nil";
  b#"ret err";
  b#"if parser.tokenIndex >= len(parser.tokens) || !isBlockStartToken(parser.tokens[parser.tokenIndex].Type)";
  b#"tok[parser.tokenIndex]";
  b#"ret err";
  b#"tok[parser.tokenIndex - 1]";
  b#"adv ++";
  b#"if parser.tokenIndex >= len(parser.tokens) || parser.tokens[parser.tokenIndex].Type != TOKEN_NAME";
  b#"tok[parser.tokenIndex]";
  b#"ret err";
  b#"tok[parser.tokenIndex - 1]";
  b#"if parser.tokens[parser.tokenIndex].Value != 'endfor'";
  b#"tok[parser.tokenIndex]";
  b#"ret err";
  b#"tok[parser.tokenIndex]";
  b#"tok[parser.tokenIndex]";
  b#"adv ++";
  b#"if parser.tokens[parser.tokenIndex].Value == 'endfor'";
  b#"tok[parser.tokenIndex]";
  b#"adv ++";
  b#"ret err";
  b#"tok[parser.tokenIndex]";
  b#"tok[parser.tokenIndex]";
  b#"if parser.tokenIndex >= len(parser.tokens) || !isBlockEndToken(parser.tokens[parser.tokenIndex].Type)";
  b#"tok[parser.tokenIndex]";
  b#"ret err";
  b#"tok[parser.tokenIndex - 1]";
  b#"adv ++";
  b#"ret err";
  b#"ret ok"
].

Definition bp_skel_parseSet : list bytes := [
  b#"tok[parser.tokenIndex - 2]";
  b#"if parser.tokenIndex >= len(parser.tokens) || parser.tokens[parser.tokenIndex].Type != TOKEN_NAME";
  b#"tok[parser.tokenIndex]";
  b#"ret err";
  b#"tok[parser.tokenIndex]";
  b#"adv ++";
  b#"if parser.tokenIndex >= len(parser.tokens) || parser.tokens[parser.tokenIndex].Type != TOKEN_OPERATOR || parser.tokens[parser.tokenIndex].Value != '='";
  b#"tok[parser.tokenIndex]";
  b#"tok[parser.tokenIndex]";
  b#"ret err";
  b#"adv ++";
  b#"call parseExpression";
  b#"if err != nil";
  b#"ret err";
  b#"if parser.tokenIndex < len(parser.tokens) && parser.tokens[parser.tokenIndex].Type == TOKEN_OPERATOR && parser.tokens[parser.tokenIndex].Value != '='";
  b#"tok[parser.tokenIndex]";
  b#"tok[parser.tokenIndex]";
  b#"tok[parser.tokenIndex]";
  b#"adv ++";
  b#"call parseExpression";
  b#"if err != nil";
  b#"ret err";
  b#"if parser.tokenIndex >= len(parser.tokens) || !isBlockEndToken(parser.tokens[parser.tokenIndex].Type)";
  b#"tok[parser.tokenIndex]";
  b#"ret err";
  b#"adv ++";
  b#"ret ok"
].

Definition bp_skel_parseBlock : list bytes := [
  b#"tok[parser.tokenIndex - 2]";
  b#"if parser.tokenIndex >= len(parser.tokens) || parser.tokens[parser.tokenIndex].Type != TOKEN_NAME";
  b#"tok[parser.tokenIndex]";
  b#"ret err";
  b#"tok[parser.tokenIndex]";
  b#"adv ++";
  b#"range parser.openBlocks";
  b#"if open == blockName";
  b#"ret err";
  b#"if parser.tokenIndex >= len(parser.tokens) || !isBlockEndToken(parser.tokens[parser.tokenIndex].Type)";
  b#"tok[parser.tokenIndex]";
  b#"ret err";
  b#"adv ++";
  b#"call parseOuterTemplate";
  b#"if err != nil";
  b#"ret err";
  b#"if parser.tokenIndex >= len(parser.tokens) || !isBlockStartToken(parser.tokens[parser.tokenIndex].Type)";
  b#"tok[parser.tokenIndex]";
  b#"ret err";
  b#"adv ++";
  b#"if parser.tokenIndex >= len(parser.tokens) || parser.tokens[parser.tokenIndex].Type != TOKEN_NAME || parser.tokens[parser.tokenIndex].Value != 'endblock'";
  b#"tok[parser.tokenIndex]";
  b#"tok[parser.tokenIndex]";
  b#"ret err";
  b#"tok[parser.tokenIndex - 1]";
  b#"adv ++";
  b#"if parser.tokenIndex < len(parser.tokens) && parser.tokens[parser.tokenIndex].Type == TOKEN_NAME";
  b#"tok[parser.tokenIndex]";
  b#"tok[parser.tokenIndex]";
  b#"if endBlockName != blockName";
  b#"ret err";
  b#"tok[parser.tokenIndex]";
  b#"adv ++";
  b#"if parser.tokenIndex >= len(parser.tokens) || !isBlockEndToken(parser.tokens[parser.tokenIndex].Type)";
  b#"tok[parser.tokenIndex]";
  b#"ret err";
  b#"tok[parser.tokenIndex - 1]";
  b#"adv ++";
  b#"ret ok"
].

Definition bp_skel_parseExtends : list bytes := [
  b#"tok[parser.tokenIndex - 2]";
  b#"call parseExpression";
  b#"if err != nil";
  b#"ret err";
  b#"if parser.tokenIndex >= len(parser.tokens) || !isBlockEndToken(parser.tokens[parser.tokenIndex].Type)";
  b#"tok[parser.tokenIndex]";
  b#"ret err";
  b#"adv ++";
  b#"ret ok"
].

Definition bp_skel_parseInclude : list bytes := [
  b#"tok[parser.tokenIndex - 2]";
  b#"call parseExpression";
  b#"if err != nil";
  b#"ret err";
  b#"for parser.tokenIndex < len(parser.tokens) && parser.tokens[parser.tokenIndex].Type == TOKEN_NAME";
  b#"tok[parser.tokenIndex]";
  b#"tok[parser.tokenIndex]";
  b#"adv ++";
  b#"switch keyword";
  b#"case 'with'";
  b#"if variables == nil";
  b#"if parser.tokenIndex < len(parser.tokens) && parser.tokens[parser.tokenIndex].Type == TOKEN_PUNCTUATION && parser.tokens[parser.tokenIndex].Value == '{'";
  b#"tok[parser.tokenIndex]";
  b#"tok[parser.tokenIndex]";
  b#"adv ++";
  b#"for ";
  b#"if parser.tokenIndex < len(parser.tokens) && parser.tokens[parser.tokenIndex].Type == TOKEN_PUNCTUATION && parser.tokens[parser.tokenIndex].Value == '}'";
  b#"tok[parser.tokenIndex]";
  b#"tok[parser.tokenIndex]";
  b#"adv ++";
  b#"break";
  b#"if parser.tokenIndex < len(parser.tokens) && parser.tokens[parser.tokenIndex].Type == TOKEN_STRING";
  b#"tok[parser.tokenIndex]";
  b#"tok[parser.tokenIndex]";
  b#"adv ++";
  b#"if parser.tokenIndex < len(parser.tokens) && parser.tokens[parser.tokenIndex].Type == TOKEN_NAME";
  b#"tok[parser.tokenIndex]";
  b#"tok[parser.tokenIndex]";
  b#"adv ++";
  b#"ret err";
  b#"if parser.tokenIndex >= len(parser.tokens) || ((parser.tokens[parser.tokenIndex].Type != TOKEN_PUNCTUATION && parser.tokens[parser.tokenIndex].Value != ':') && (parser.tokens[parser.tokenIndex].Type != TOKEN_OPERATOR && parser.tokens[parser.tokenIndex].Value != '='))";
  b#"tok[parser.tokenIndex]";
  b#"tok[parser.tokenIndex]";
  b#"tok[parser.tokenIndex]";
  b#"tok[parser.tokenIndex]";
  b#"ret err";
  b#"adv ++";
  b#"call parseExpression";
  b#"if err != nil";
  b#"ret err";
  b#"if parser.tokenIndex < len(parser.tokens) && parser.tokens[parser.tokenIndex].Type == TOKEN_PUNCTUATION && parser.tokens[parser.tokenIndex].Value == ','";
  b#"tok[parser.tokenIndex]";
  b#"tok[parser.tokenIndex]";
  b#"adv ++";
  b#"for parser.tokenIndex < len(parser.tokens) && parser.tokens[parser.tokenIndex].Type == TOKEN_TEXT && strings.TrimSpace(parser.tokens[parser.tokenIndex].Value) == ''";
  b#"tok[parser.tokenIndex]";
  b#"tok[parser.tokenIndex]";
  b#"adv ++";
  b#"for parser.tokenIndex < len(parser.tokens) && parser.tokens[parser.tokenIndex].Type == TOKEN_NAME";
  b#"tok[parser.tokenIndex]";
  b#"tok[parser.tokenIndex]";
  b#"adv ++";
  b#"if parser.tokenIndex >= len(parser.tokens) || parser.tokens[parser.tokenIndex].Type != TOKEN_OPERATOR || parser.tokens[parser.tokenIndex].Value != '='";
  b#"tok[parser.tokenIndex]";
  b#"tok[parser.tokenIndex]";
  b#"ret err";
  b#"adv ++";
  b#"call parseExpression";
  b#"if err != nil";
  b#"ret err";
  b#"if parser.tokenIndex < len(parser.tokens) && parser.tokens[parser.tokenIndex].Type == TOKEN_PUNCTUATION && parser.tokens[parser.tokenIndex].Value == ','";
  b#"tok[parser.tokenIndex]";
  b#"tok[parser.tokenIndex]";
  b#"adv ++";
  b#"break";
  b#"case 'ignore'";
  b#"if parser.tokenIndex >= len(parser.tokens) || parser.tokens[parser.tokenIndex].Type != TOKEN_NAME || parser.tokens[parser.tokenIndex].Value != 'missing'";
  b#"tok[parser.tokenIndex]";
  b#"tok[parser.tokenIndex]";
  b#"ret err";
  b#"adv ++";
  b#"case 'only'";
  b#"case 'sandboxed'";
  b#"default";
  b#"ret err";
  b#"if parser.tokenIndex >= len(parser.tokens) || (parser.tokens[parser.tokenIndex].Type != TOKEN_BLOCK_END && parser.tokens[parser.tokenIndex].Type != TOKEN_BLOCK_END_TRIM)";
  b#"tok[parser.tokenIndex]";
  b#"tok[parser.tokenIndex]";
  b#"ret err";
  b#"tok[parser.tokenIndex]";
  b#"tok[parser.tokenIndex]";
  b#"adv ++";
  b#"ret ok"
].

Definition bp_skel_parseImport : list bytes := [
  b#"if IsDebugEnabled() && debugger.level >= DebugVerbose";
  b#"for i < 10 && tokenIndex + i < len(parser.tokens)";
  b#"tok[tokenIndex + i]";
  b#"tok[parser.tokenIndex - 2]";
  b#"if parser.tokenIndex < len(parser.tokens) && parser.tokens[parser.tokenIndex].Type == TOKEN_NAME && strings.Contains(parser.tokens[parser.tokenIndex].Value, ' as ')";
  b#"tok[parser.tokenIndex]";
  b#"tok[parser.tokenIndex]";
  b#"tok[parser.tokenIndex]";
  b#"if len(parts) == 2";
  b#"if IsDebugEnabled() && debugger.level >= DebugVerbose";
  b#"if strings.HasPrefix(templatePath, '\'') && strings.HasSuffix(templatePath, '\'')";
  b#"adv ++";
  b#"if parser.tokenIndex >= len(parser.tokens) || (parser.tokens[parser.tokenIndex].Type != TOKEN_BLOCK_END && parser.tokens[parser.tokenIndex].Type != TOKEN_BLOCK_END_TRIM)";
  b#"tok[parser.tokenIndex]";
  b#"tok[parser.tokenIndex]";
  b#"ret err";
  b#"adv ++";
  b#"ret ok";
  b#"call parseExpression";
  b#"if err != nil";
  b#"ret err";
  b#"if parser.tokenIndex >= len(parser.tokens) || parser.tokens[parser.tokenIndex].Type != TOKEN_NAME || parser.tokens[parser.tokenIndex].Value != 'as'";
  b#"tok[parser.tokenIndex]";
  b#"tok[parser.tokenIndex]";
  b#"ret err";
  b#"adv ++";
  b#"if parser.tokenIndex >= len(parser.tokens) || parser.tokens[parser.tokenIndex].Type != TOKEN_NAME";
  b#"tok[parser.tokenIndex]";
  b#"ret err";
  b#"tok[parser.tokenIndex]";
  b#"adv ++";
  b#"if parser.tokenIndex >= len(parser.tokens) || (parser.tokens[parser.tokenIndex].Type != TOKEN_BLOCK_END && parser.tokens[parser.tokenIndex].Type != TOKEN_BLOCK_END_TRIM)";
  b#"tok[parser.tokenIndex]";
  b#"tok[parser.tokenIndex]";
  b#"ret err";
  b#"adv ++";
  b#"ret ok"
].

Definition bp_skel_parseFrom : list bytes := [
  b#"tok[parser.tokenIndex - 1]";
  b#"if IsDebugEnabled()";
  b#"for i < 10 && i + parser.tokenIndex < len(parser.tokens)";
  b#"if parser.tokenIndex + i < len(parser.tokens)";
  b#"tok[parser.tokenIndex + i]";
  b#"if parser.tokenIndex + 1 < len(parser.tokens)";
  b#"tok[parser.tokenIndex]";
  b#"tok[parser.tokenIndex + 1]";
  b#"if isTemplatePath && isImportKeyword";
  b#"if firstToken.Type == TOKEN_NAME";
  b#"adv += 2";
  b#"for parser.tokenIndex < len(parser.tokens)";
  b#"tok[parser.tokenIndex]";
  b#"if token.Type == TOKEN_BLOCK_END || token.Type == TOKEN_BLOCK_END_TRIM";
  b#"adv ++";
  b#"break";
  b#"if token.Type == TOKEN_PUNCTUATION";
  b#"adv ++";
  b#"continue";
  b#"if token.Type == TOKEN_NAME";
  b#"adv ++";
  b#"if parser.tokenIndex < len(parser.tokens) && parser.tokens[parser.tokenIndex].Type == TOKEN_NAME && parser.tokens[parser.tokenIndex].Value == 'as'";
  b#"tok[parser.tokenIndex]";
  b#"tok[parser.tokenIndex]";
  b#"adv ++";
  b#"if parser.tokenIndex < len(parser.tokens) && parser.tokens[parser.tokenIndex].Type == TOKEN_NAME";
  b#"tok[parser.tokenIndex]";
  b#"tok[parser.tokenIndex]";
  b#"adv ++";
  b#"adv ++";
  b#"if len(macros) > 0";
  b#"ret ok";
  b#"if parser.tokenIndex < len(parser.tokens) && parser.tokens[parser.tokenIndex].Type == TOKEN_NAME";
  b#"tok[parser.tokenIndex]";
  b#"tok[parser.tokenIndex]";
  b#"if len(matches) == 2";
  b#"range macroItems";
  b#"if len(asParts) == 2";
  b#"adv ++";
  b#"for parser.tokenIndex < len(parser.tokens)";
  b#"if parser.tokens[parser.tokenIndex].Type == TOKEN_BLOCK_END || parser.tokens[parser.tokenIndex].Type == TOKEN_BLOCK_END_TRIM";
  b#"tok[parser.tokenIndex]";
  b#"tok[parser.tokenIndex]";
  b#"adv ++";
  b#"break";
  b#"adv ++";
  b#"ret ok";
  b#"ret err"
].

Definition bp_skel_parseMacro : list bytes := [
  b#"if IsDebugEnabled() && debugger.level >= DebugVerbose";
  b#"for i < 10 && tokenIndex + i < len(parser.tokens)";
  b#"tok[tokenIndex + i]";
  b#"tok[parser.tokenIndex - 2]";
  b#"if parser.tokenIndex >= len(parser.tokens) || parser.tokens[parser.tokenIndex].Type != TOKEN_NAME";
  b#"tok[parser.tokenIndex]";
  b#"ret err";
  b#"tok[parser.tokenIndex]";
  b#"if IsDebugEnabled() && debugger.level >= DebugVerbose";
  b#"if strings.Contains(macroNameRaw, '(')";
  b#"if len(parts) == 2";
  b#"if IsDebugEnabled() && debugger.level >= DebugVerbose";
  b#"if paramList != ''";
  b#"range paramItems";
  b#"if strings.Contains(param, '=')";
  b#"if (strings.HasPrefix(defaultValue, ''') && strings.HasSuffix(defaultValue, ''')) || (strings.HasPrefix(defaultValue, '\'') && strings.HasSuffix(defaultValue, '\''))";
  b#"if defaultValue == 'true'";
  b#"if defaultValue == 'false'";
  b#"if err == nil";
  b#"adv ++";
  b#"if parser.tokenIndex >= len(parser.tokens) || (parser.tokens[parser.tokenIndex].Type != TOKEN_BLOCK_END && parser.tokens[parser.tokenIndex].Type != TOKEN_BLOCK_END_TRIM)";
  b#"tok[parser.tokenIndex]";
  b#"tok[parser.tokenIndex]";
  b#"ret err";
  b#"adv ++";
  b#"call parseOuterTemplate";
  b#"if err != nil";
  b#"ret err";
  b#"if parser.tokenIndex + 1 >= len(parser.tokens) || (parser.tokens[parser.tokenIndex].Type != TOKEN_BLOCK_START && parser.tokens[parser.tokenIndex].Type != TOKEN_BLOCK_START_TRIM) || parser.tokens[parser.tokenIndex + 1].Type != TOKEN_NAME || parser.tokens[parser.tokenIndex + 1].Value != 'endmacro'";
  b#"tok[parser.tokenIndex]";
  b#"tok[parser.tokenIndex]";
  b#"tok[parser.tokenIndex + 1]";
  b#"tok[parser.tokenIndex + 1]";
  b#"ret err";
  b#"adv += 2";
  b#"if parser.tokenIndex >= len(parser.tokens) || (parser.tokens[parser.tokenIndex].Type != TOKEN_BLOCK_END && parser.tokens[parser.tokenIndex].Type != TOKEN_BLOCK_END_TRIM)";
  b#"tok[parser.tokenIndex]";
  b#"tok[parser.tokenIndex]";
  b#"ret err";
  b#"tok[parser.tokenIndex]";
  b#"adv ++";
  b#"if IsDebugEnabled() && debugger.level >= DebugVerbose";
  b#"ret ok";
  b#"tok[parser.tokenIndex]";
  b#"if IsDebugEnabled() && debugger.level >= DebugVerbose";
  b#"adv ++";
  b#"if parser.tokenIndex >= len(parser.tokens) || parser.tokens[parser.tokenIndex].Type != TOKEN_PUNCTUATION || parser.tokens[parser.tokenIndex].Value != '('";
  b#"tok[parser.tokenIndex]";
  b#"tok[parser.tokenIndex]";
  b#"ret err";
  b#"adv ++";
  b#"if parser.tokenIndex < len(parser.tokens) && (parser.tokens[parser.tokenIndex].Type != TOKEN_PUNCTUATION || parser.tokens[parser.tokenIndex].Value != ')')";
  b#"tok[parser.tokenIndex]";
  b#"tok[parser.tokenIndex]";
  b#"for ";
  b#"if parser.tokenIndex >= len(parser.tokens) || parser.tokens[parser.tokenIndex].Type != TOKEN_NAME";
  b#"tok[parser.tokenIndex]";
  b#"ret err";
  b#"tok[parser.tokenIndex]";
  b#"adv ++";
  b#"if parser.tokenIndex < len(parser.tokens) && parser.tokens[parser.tokenIndex].Type == TOKEN_OPERATOR && parser.tokens[parser.tokenIndex].Value == '='";
  b#"tok[parser.tokenIndex]";
  b#"tok[parser.tokenIndex]";
  b#"adv ++";
  b#"call parseExpression";
  b#"if err != nil";
  b#"ret err";
  b#"if parser.tokenIndex < len(parser.tokens) && parser.tokens[parser.tokenIndex].Type == TOKEN_PUNCTUATION && parser.tokens[parser.tokenIndex].Value == ','";
  b#"tok[parser.tokenIndex]";
  b#"tok[parser.tokenIndex]";
  b#"adv ++";
  b#"continue";
  b#"break";
  b#"if parser.tokenIndex >= len(parser.tokens) || parser.tokens[parser.tokenIndex].Type != TOKEN_PUNCTUATION || parser.tokens[parser.tokenIndex].Value != ')'";
  b#"tok[parser.tokenIndex]";
  b#"tok[parser.tokenIndex]";
  b#"ret err";
  b#"adv ++";
  b#"if parser.tokenIndex >= len(parser.tokens) || (parser.tokens[parser.tokenIndex].Type != TOKEN_BLOCK_END && parser.tokens[parser.tokenIndex].Type != TOKEN_BLOCK_END_TRIM)";
  b#"tok[parser.tokenIndex]";
  b#"tok[parser.tokenIndex]";
  b#"ret err";
  b#"adv ++";
  b#"call parseOuterTemplate";
  b#"if err != nil";
  b#"ret err";
  b#"if parser.tokenIndex + 1 >= len(parser.tokens) || (parser.tokens[parser.tokenIndex].Type != TOKEN_BLOCK_START && parser.tokens[parser.tokenIndex].Type != TOKEN_BLOCK_START_TRIM) || parser.tokens[parser.tokenIndex + 1].Type != TOKEN_NAME || parser.tokens[parser.tokenIndex + 1].Value != 'endmacro'";
  b#"tok[parser.tokenIndex]";
  b#"tok[parser.tokenIndex]";
  b#"tok[parser.tokenIndex + 1]";
  b#"tok[parser.tokenIndex + 1]";
  b#"ret err";
  b#"adv += 2";
  b#"if parser.tokenIndex >= len(parser.tokens) || (parser.tokens[parser.tokenIndex].Type != TOKEN_BLOCK_END && parser.tokens[parser.tokenIndex].Type != TOKEN_BLOCK_END_TRIM)";
  b#"tok[parser.tokenIndex]";
  b#"tok[parser.tokenIndex]";
  b#"ret err";
  b#"tok[parser.tokenIndex]";
  b#"adv ++";
  b#"if IsDebugEnabled() && debugger.level >= DebugVerbose";
  b#"ret ok"
].

Definition bp_skel_parseDo : list bytes := [
  b#"tok[parser.tokenIndex - 2]";
  b#"if parser.tokenIndex < len(parser.tokens) && isBlockEndToken(parser.tokens[parser.tokenIndex].Type)";
  b#"tok[parser.tokenIndex]";
  b#"ret err";
  b#"if parser.tokenIndex < len(parser.tokens)";
  b#"for i < 3 && parser.tokenIndex + i < len(parser.tokens)";
  b#"tok[parser.tokenIndex + i]";
  b#"if token.Type == TOKEN_OPERATOR && token.Value == '='";
  b#"break";
  b#"if isBlockEndToken(token.Type)";
  b#"break";
  b#"if hasAssignment && equalsPosition > 0";
  b#"tok[parser.tokenIndex]";
  b#"if !isValidVariableName";
  b#"ret err";
  b#"if isValidVariableName && hasAssignment";
  b#"tok[parser.tokenIndex]";
  b#"adv += equalsPosition + 1";
  b#"call parseExpression";
  b#"if err != nil";
  b#"ret err";
  b#"if parser.tokenIndex >= len(parser.tokens) || !isBlockEndToken(parser.tokens[parser.tokenIndex].Type)";
  b#"tok[parser.tokenIndex]";
  b#"ret err";
  b#"adv ++";
  b#"if err == nil";
  b#"ret err";
  b#"ret ok";
  b#"call parseExpression";
  b#"if err != nil";
  b#"ret err";
  b#"if parser.tokenIndex >= len(parser.tokens) || !isBlockEndToken(parser.tokens[parser.tokenIndex].Type)";
  b#"tok[parser.tokenIndex]";
  b#"ret err";
  b#"adv ++";
  b#"ret ok"
].

Definition bp_skel_parseApply : list bytes := [
  b#"tok[parser.tokenIndex - 2]";
  b#"if parser.tokenIndex >= len(parser.tokens) || parser.tokens[parser.tokenIndex].Type != TOKEN_NAME";
  b#"tok[parser.tokenIndex]";
  b#"ret err";
  b#"tok[parser.tokenIndex]";
  b#"adv ++";
  b#"if parser.tokenIndex >= len(parser.tokens) || (parser.tokens[parser.tokenIndex].Type != TOKEN_BLOCK_END && parser.tokens[parser.tokenIndex].Type != TOKEN_BLOCK_END_TRIM)";
  b#"tok[parser.tokenIndex]";
  b#"tok[parser.tokenIndex]";
  b#"ret err";
  b#"adv ++";
  b#"call parseOuterTemplate";
  b#"if err != nil";
  b#"ret err";
  b#"if parser.tokenIndex >= len(parser.tokens) || !isBlockStartToken(parser.tokens[parser.tokenIndex].Type)";
  b#"tok[parser.tokenIndex]";
  b#"ret err";
  b#"adv ++";
  b#"if parser.tokenIndex >= len(parser.tokens) || parser.tokens[parser.tokenIndex].Type != TOKEN_NAME || parser.tokens[parser.tokenIndex].Value != 'endapply'";
  b#"tok[parser.tokenIndex]";
  b#"tok[parser.tokenIndex]";
  b#"ret err";
  b#"adv ++";
  b#"if parser.tokenIndex >= len(parser.tokens) || (parser.tokens[parser.tokenIndex].Type != TOKEN_BLOCK_END && parser.tokens[parser.tokenIndex].Type != TOKEN_BLOCK_END_TRIM)";
  b#"tok[parser.tokenIndex]";
  b#"tok[parser.tokenIndex]";
  b#"ret err";
  b#"adv ++";
  b#"ret ok"
].

Definition bp_skel_parseSpaceless : list bytes := [
  b#"tok[parser.tokenIndex - 2]";
  b#"if parser.tokenIndex >= len(parser.tokens) || (parser.tokens[parser.tokenIndex].Type != TOKEN_BLOCK_END && parser.tokens[parser.tokenIndex].Type != TOKEN_BLOCK_END_TRIM)";
  b#"tok[parser.tokenIndex]";
  b#"tok[parser.tokenIndex]";
  b#"ret err";
  b#"adv ++";
  b#"call parseOuterTemplate";
  b#"if err != nil";
  b#"ret err";
  b#"if parser.tokenIndex >= len(parser.tokens) || !isBlockStartToken(parser.tokens[parser.tokenIndex].Type)";
  b#"tok[parser.tokenIndex]";
  b#"ret err";
  b#"adv ++";
  b#"if parser.tokenIndex >= len(parser.tokens) || parser.tokens[parser.tokenIndex].Type != TOKEN_NAME || parser.tokens[parser.tokenIndex].Value != 'endspaceless'";
  b#"tok[parser.tokenIndex]";
  b#"tok[parser.tokenIndex]";
  b#"ret err";
  b#"tok[parser.tokenIndex]";
  b#"adv ++";
  b#"if parser.tokenIndex >= len(parser.tokens) || (parser.tokens[parser.tokenIndex].Type != TOKEN_BLOCK_END && parser.tokens[parser.tokenIndex].Type != TOKEN_BLOCK_END_TRIM)";
  b#"tok[parser.tokenIndex]";
  b#"tok[parser.tokenIndex]";
  b#"ret err";
  b#"tok[parser.tokenIndex]";
  b#"adv ++";
  b#"ret ok"
].

Definition bp_skel_parseVerbatim : list bytes := [
  b#"tok[parser.tokenIndex - 2]";
  b#"if parser.tokenIndex >= len(parser.tokens) || !isBlockEndToken(parser.tokens[parser.tokenIndex].Type)";
  b#"tok[parser.tokenIndex]";
  b#"ret err";
  b#"adv ++";
  b#"for parser.tokenIndex < len(parser.tokens)";
  b#"tok[parser.tokenIndex]";
  b#"if token.Type == TOKEN_BLOCK_START || token.Type == TOKEN_BLOCK_START_TRIM";
  b#"if parser.tokenIndex + 1 < len(parser.tokens) && parser.tokens[parser.tokenIndex + 1].Type == TOKEN_NAME && parser.tokens[parser.tokenIndex + 1].Value == 'endverbatim'";
  b#"tok[parser.tokenIndex + 1]";
  b#"tok[parser.tokenIndex + 1]";
  b#"adv += 2";
  b#"if parser.tokenIndex >= len(parser.tokens) || !isBlockEndToken(parser.tokens[parser.tokenIndex].Type)";
  b#"tok[parser.tokenIndex]";
  b#"ret err";
  b#"adv ++";
  b#"ret ok";
  b#"if token.Type == TOKEN_TEXT";
  b#"if token.Type == TOKEN_VAR_START || token.Type == TOKEN_VAR_START_TRIM";
  b#"adv ++";
  b#"for parser.tokenIndex < len(parser.tokens)";
  b#"tok[parser.tokenIndex]";
  b#"if innerToken.Type == TOKEN_VAR_END || innerToken.Type == TOKEN_VAR_END_TRIM";
  b#"break";
  b#"if innerToken.Type == TOKEN_NAME || innerToken.Type == TOKEN_STRING || innerToken.Type == TOKEN_NUMBER || innerToken.Type == TOKEN_OPERATOR || innerToken.Type == TOKEN_PUNCTUATION";
  b#"adv ++";
  b#"if token.Type == TOKEN_BLOCK_START || token.Type == TOKEN_BLOCK_START_TRIM";
  b#"adv ++";
  b#"for parser.tokenIndex < len(parser.tokens)";
  b#"tok[parser.tokenIndex]";
  b#"if innerToken.Type == TOKEN_BLOCK_END || innerToken.Type == TOKEN_BLOCK_END_TRIM";
  b#"break";
  b#"if innerToken.Type == TOKEN_NAME || innerToken.Type == TOKEN_STRING || innerToken.Type == TOKEN_NUMBER || innerToken.Type == TOKEN_OPERATOR || innerToken.Type == TOKEN_PUNCTUATION";
  b#"if innerToken.Type == TOKEN_NAME && parser.tokenIndex > 0 && (parser.tokens[parser.tokenIndex - 1].Type == TOKEN_BLOCK_START || parser.tokens[parser.tokenIndex - 1].Type == TOKEN_BLOCK_START_TRIM)";
  b#"tok[parser.tokenIndex - 1]";
  b#"tok[parser.tokenIndex - 1]";
  b#"adv ++";
  b#"if token.Type == TOKEN_COMMENT_START";
  b#"adv ++";
  b#"for parser.tokenIndex < len(parser.tokens)";
  b#"tok[parser.tokenIndex]";
  b#"if innerToken.Type == TOKEN_COMMENT_END";
  b#"break";
  b#"if innerToken.Type == TOKEN_TEXT";
  b#"adv ++";
  b#"adv ++";
  b#"if parser.tokenIndex >= len(parser.tokens)";
  b#"ret err";
  b#"ret err"
].

Definition bp_skel_parseEndTag : list bytes := [
  b#"tok[parser.tokenIndex - 2]";
  b#"tok[parser.tokenIndex - 1]";
  b#"ret err"
].

