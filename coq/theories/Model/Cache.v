(* Model of the engine template cache and loader chain: twig.go Engine.Load, RegisterString,
   RegisterTemplate (and through it RegisterCompiledTemplate), SetCache, SetAutoReload,
   SetDevelopmentMode, RegisterLoader; loader.go Loader / TimestampAwareLoader.

   Names and sources are abstract identifiers (N). A source is unparsable iff cache_src_bad says
   so (the runner turns such an id into a text the parser rejects). Timestamps are int64 in Go and
   only ever compared, never computed with: Z.

   cache_step        the engine with the repair notes/proposed-fixes/C15-registration-survives-cache-off.patch
   cache_step_pinned the engine before that repair (used only by the refutation theorems)

   No proofs in this file. *)
From Twig Require Import Base.Bytes.

(* ---- association lists keyed by N: a Go map read through lookups only ---- *)
Fixpoint cache_lookup {A} (l : list (N * A)) (k : N) : option A :=
  match l with
  | [] => None
  | (k', v) :: r => if N.eqb k' k then Some v else cache_lookup r k
  end.
(* m[k] = v: the new binding shadows any older one *)
Definition cache_set {A} (l : list (N * A)) (k : N) (v : A) : list (N * A) := (k, v) :: l.
(* delete(m, k) *)
Fixpoint cache_del {A} (l : list (N * A)) (k : N) : list (N * A) :=
  match l with
  | [] => []
  | (k', v) :: r => if N.eqb k' k then cache_del r k else (k', v) :: cache_del r k
  end.

(* ---- state ---- *)
(* Template.source / Template.loader / Template.lastModified of a *Template in Engine.templates;
   the loader is its index in Engine.loaders (loaders are only ever appended) *)
Record cache_entry := mk_centry { ce_src : N; ce_loader : option nat; ce_mtime : Z }.

(* a loader under the control of the environment: name -> (source, timestamp if obtainable);
   cl_ts says whether the Go value implements TimestampAwareLoader *)
Record cache_loader := mk_cloader { cl_ts : bool; cl_files : list (N * (N * option Z)) }.

Record cache_state := mk_cstate {
  cs_cache : list (N * cache_entry);   (* Engine.templates *)
  cs_on : bool;                        (* Environment.cache *)
  cs_auto : bool;                      (* Engine.autoReload *)
  cs_debug : bool;                     (* Environment.debug / Engine.debug *)
  cs_loaders : list cache_loader       (* Engine.loaders, in registration order *)
}.

(* twig.New: caching on, auto-reload off, debug off, no loaders, nothing cached *)
Definition cache_init : cache_state := mk_cstate [] true false false [].

Definition cache_with_cache (s : cache_state) (c : list (N * cache_entry)) : cache_state :=
  mk_cstate c (cs_on s) (cs_auto s) (cs_debug s) (cs_loaders s).
Definition cache_with_loaders (s : cache_state) (ls : list cache_loader) : cache_state :=
  mk_cstate (cs_cache s) (cs_on s) (cs_auto s) (cs_debug s) ls.

(* ---- operations and observations ---- *)
Inductive cache_op :=
| CRegister (n src : N)                               (* RegisterString / RegisterTemplate / RegisterCompiledTemplate *)
| CLoad (n : N)                                       (* Load, Render, RenderTo *)
| CSetCache (b : bool)
| CSetAutoReload (b : bool)
| CSetDevMode (b : bool)
| CLoaderPut (l : nat) (n src : N) (mt : option Z)    (* environment: loader l now has n with this content and timestamp *)
| CLoaderDel (l : nat) (n : N)                        (* environment: loader l loses n *)
| CAddLoader (ts : bool).                             (* RegisterLoader of a fresh empty loader *)

Inductive cache_served := CServed (src : N) | CErrNotFound | CErrOther.
(* reads: for every registered loader, how many times this call obtained a template source from it *)
Inductive cache_obs := COLoad (r : cache_served) (reads : list nat) | CORegister (ok : bool) | CONone.

(* which source ids stand for text the parser rejects *)
Definition cache_src_bad (src : N) : bool := N.eqb (N.modulo src 5) 4.

(* ---- the loader loop of Engine.Load:
     for _, loader := range e.loaders { source, err := loader.Load(name); if err != nil { continue }; ...; break }
   result: index, loader and file of the first loader that has the name, and the per-loader read counts *)
Fixpoint cache_try_loaders (ls : list cache_loader) (n : N)
  : option (nat * cache_loader * (N * option Z)) * list nat :=
  match ls with
  | [] => (None, [])
  | l :: r =>
    match cache_lookup (cl_files l) n with
    | Some f => (Some (O, l, f), 1%nat :: repeat O (length r))            (* break *)
    | None =>                                                            (* continue *)
      match cache_try_loaders r n with
      | (Some (i, l', f), rd) => (Some (S i, l', f), O :: rd)
      | (None, rd) => (None, O :: rd)
      end
    end
  end.

(* lastModified as computed in the loop: lastModified, _ = tsLoader.GetModifiedTime(name) for a
   timestamp-aware loader (0 comes back with the error), otherwise the zero value *)
Definition cache_eff_mtime (l : cache_loader) (mt : option Z) : Z :=
  if cl_ts l then match mt with Some m => m | None => 0%Z end else 0%Z.

(* the part of Load after the cache check: try the loaders, parse, store if caching is enabled *)
Definition cache_reload (s : cache_state) (n : N) : cache_state * cache_obs :=
  match cache_try_loaders (cs_loaders s) n with
  | (None, rd) => (s, COLoad CErrNotFound rd)
  | (Some (i, l, (src, mt)), rd) =>
    if cache_src_bad src then (s, COLoad CErrOther rd)                   (* parse error: returned, nothing stored *)
    else
      let e := mk_centry src (Some i) (cache_eff_mtime l mt) in
      (if cs_on s then cache_with_cache s (cache_set (cs_cache s) n e) else s, COLoad (CServed src) rd)
  end.

(* the auto-reload test:
     if tmpl.loader != nil { if tsLoader, ok := tmpl.loader.(TimestampAwareLoader); ok {
        currentModTime, err := tsLoader.GetModifiedTime(name)
        if err != nil || currentModTime > tmpl.lastModified { needsReload = true } } } *)
Definition cache_needs_reload (s : cache_state) (n : N) (e : cache_entry) : bool :=
  match ce_loader e with
  | None => false
  | Some i =>
    match nth_error (cs_loaders s) i with
    | None => false
    | Some l =>
      if cl_ts l then
        match cache_lookup (cl_files l) n with
        | Some (_, Some m) => Z.gtb m (ce_mtime e)
        | _ => true
        end
      else false
    end
  end.

Definition cache_zero_reads (s : cache_state) : list nat := repeat O (length (cs_loaders s)).
Definition cache_hit (s : cache_state) (e : cache_entry) : cache_state * cache_obs :=
  (s, COLoad (CServed (ce_src e)) (cache_zero_reads s)).

(* Engine.Load, repaired: a loader-less (registered) entry is served before the cache flag is looked at *)
Definition cache_load (s : cache_state) (n : N) : cache_state * cache_obs :=
  match cache_lookup (cs_cache s) n with
  | Some e =>
    match ce_loader e with
    | None => cache_hit s e
    | Some _ =>
      if cs_on s then
        if negb (cs_auto s) then cache_hit s e
        else if cache_needs_reload s n e then cache_reload s n
        else cache_hit s e
      else cache_reload s n
    end
  | None => cache_reload s n
  end.

(* Engine.Load, pinned: the template map is consulted only while caching is enabled *)
Definition cache_load_pinned (s : cache_state) (n : N) : cache_state * cache_obs :=
  if cs_on s then
    match cache_lookup (cs_cache s) n with
    | Some e =>
      if negb (cs_auto s) then cache_hit s e
      else if cache_needs_reload s n e then cache_reload s n
      else cache_hit s e
    | None => cache_reload s n
    end
  else cache_reload s n.

(* RegisterString: parse, then store with loader nil; repaired: stored whatever the cache flag *)
Definition cache_register (s : cache_state) (n src : N) : cache_state * cache_obs :=
  if cache_src_bad src then (s, CORegister false)
  else (cache_with_cache s (cache_set (cs_cache s) n (mk_centry src None 0%Z)), CORegister true).

(* pinned: if e.environment.cache { e.templates[name] = template } *)
Definition cache_register_pinned (s : cache_state) (n src : N) : cache_state * cache_obs :=
  if cache_src_bad src then (s, CORegister false)
  else if cs_on s then (cache_with_cache s (cache_set (cs_cache s) n (mk_centry src None 0%Z)), CORegister true)
  else (s, CORegister true).

(* replace the file table of the l-th loader *)
Fixpoint cache_upd_loader (ls : list cache_loader) (l : nat)
  (f : list (N * (N * option Z)) -> list (N * (N * option Z))) : list cache_loader :=
  match ls, l with
  | [], _ => []
  | x :: r, O => mk_cloader (cl_ts x) (f (cl_files x)) :: r
  | x :: r, S l' => x :: cache_upd_loader r l' f
  end.

(* everything except Register and Load is the same before and after the repair *)
Definition cache_step_other (s : cache_state) (o : cache_op) : cache_state * cache_obs :=
  match o with
  | CSetCache b => (mk_cstate (cs_cache s) b (cs_auto s) (cs_debug s) (cs_loaders s), CONone)
  | CSetAutoReload b => (mk_cstate (cs_cache s) (cs_on s) b (cs_debug s) (cs_loaders s), CONone)
  | CSetDevMode b => (mk_cstate (cs_cache s) (negb b) b b (cs_loaders s), CONone)
  | CLoaderPut l n src mt =>
    (cache_with_loaders s (cache_upd_loader (cs_loaders s) l (fun fs => cache_set fs n (src, mt))), CONone)
  | CLoaderDel l n =>
    (cache_with_loaders s (cache_upd_loader (cs_loaders s) l (fun fs => cache_del fs n)), CONone)
  | CAddLoader ts => (cache_with_loaders s (cs_loaders s ++ [mk_cloader ts []]), CONone)
  | _ => (s, CONone)
  end.

Definition cache_step (s : cache_state) (o : cache_op) : cache_state * cache_obs :=
  match o with
  | CRegister n src => cache_register s n src
  | CLoad n => cache_load s n
  | _ => cache_step_other s o
  end.

Definition cache_step_pinned (s : cache_state) (o : cache_op) : cache_state * cache_obs :=
  match o with
  | CRegister n src => cache_register_pinned s n src
  | CLoad n => cache_load_pinned s n
  | _ => cache_step_other s o
  end.

(* the state after a history, and the observations made along it *)
Definition cache_run_from (s : cache_state) (ops : list cache_op) : cache_state :=
  fold_left (fun s o => fst (cache_step s o)) ops s.
Definition cache_run (ops : list cache_op) : cache_state := cache_run_from cache_init ops.
Definition cache_run_pinned (ops : list cache_op) : cache_state :=
  fold_left (fun s o => fst (cache_step_pinned s o)) ops cache_init.

Fixpoint cache_trace_from (s : cache_state) (ops : list cache_op) : list cache_obs :=
  match ops with
  | [] => []
  | o :: r => let (s', ob) := cache_step s o in ob :: cache_trace_from s' r
  end.
