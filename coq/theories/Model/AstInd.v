(* Induction principle for Model/Ast.v expr that reaches the sub-terms inside argument lists,
   array items and hash pairs, and a size function. *)
From Twig Require Import Base.Bytes Model.Ast.

Section ExprInd.
  Variable P : expr -> Prop.
  Hypothesis HLit : forall l, P (ELit l).
  Hypothesis HVar : forall x, P (EVar x).
  Hypothesis HAttr : forall e a, P e -> P (EAttr e a).
  Hypothesis HItem : forall e i, P e -> P i -> P (EItem e i).
  Hypothesis HUn : forall o e, P e -> P (EUn o e).
  Hypothesis HBin : forall o l r, P l -> P r -> P (EBin o l r).
  Hypothesis HCond : forall c t f, P c -> P t -> P f -> P (ECond c t f).
  Hypothesis HArr : forall es, Forall P es -> P (EArr es).
  Hypothesis HHash : forall kvs, Forall (fun kv => P (fst kv) /\ P (snd kv)) kvs -> P (EHash kvs).
  Hypothesis HFilter : forall e f args, P e -> Forall P args -> P (EFilter e f args).
  Hypothesis HCall : forall f args, Forall P args -> P (ECall f args).
  Hypothesis HModCall : forall m f args, P m -> Forall P args -> P (EModCall m f args).
  Hypothesis HTest : forall e t args neg, P e -> Forall P args -> P (ETest e t args neg).

  Fixpoint expr_ind' (e : expr) : P e :=
    let fix go (l : list expr) : Forall P l :=
      match l with
      | [] => Forall_nil P
      | x :: r => Forall_cons x (expr_ind' x) (go r)
      end in
    let fix gokv (l : list (expr * expr)) : Forall (fun kv => P (fst kv) /\ P (snd kv)) l :=
      match l with
      | [] => Forall_nil _
      | (k, v) :: r => Forall_cons (k, v) (conj (expr_ind' k) (expr_ind' v)) (gokv r)
      end in
    match e with
    | ELit l => HLit l
    | EVar x => HVar x
    | EAttr e a => HAttr e a (expr_ind' e)
    | EItem e i => HItem e i (expr_ind' e) (expr_ind' i)
    | EUn o e => HUn o e (expr_ind' e)
    | EBin o l r => HBin o l r (expr_ind' l) (expr_ind' r)
    | ECond c t f => HCond c t f (expr_ind' c) (expr_ind' t) (expr_ind' f)
    | EArr es => HArr es (go es)
    | EHash kvs => HHash kvs (gokv kvs)
    | EFilter e f args => HFilter e f args (expr_ind' e) (go args)
    | ECall f args => HCall f args (go args)
    | EModCall m f args => HModCall m f args (expr_ind' m) (go args)
    | ETest e t args neg => HTest e t args neg (expr_ind' e) (go args)
    end.
End ExprInd.

Fixpoint expr_size (e : expr) : nat :=
  let sum := fix sum (l : list expr) : nat := match l with [] => 0 | x :: r => expr_size x + sum r end in
  match e with
  | ELit _ | EVar _ => 1
  | EAttr e _ => S (expr_size e)
  | EItem e i => S (expr_size e + expr_size i)
  | EUn _ e => S (expr_size e)
  | EBin _ l r => S (expr_size l + expr_size r)
  | ECond c t f => S (expr_size c + expr_size t + expr_size f)
  | EArr es => S (sum es)
  | EHash kvs => S ((fix sumkv (l : list (expr * expr)) : nat :=
                       match l with [] => 0 | (k, v) :: r => expr_size k + expr_size v + sumkv r end) kvs)
  | EFilter e _ args => S (expr_size e + sum args)
  | ECall _ args => S (sum args)
  | EModCall m _ args => S (expr_size m + sum args)
  | ETest e _ args _ => S (expr_size e + sum args)
  end.
