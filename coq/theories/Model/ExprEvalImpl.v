(* What the engine computes on the fragment of the reference evaluator (Spec/ExprEval.v), where it
   is known to differ from it. render.go evaluates arithmetic in binary64: every arithmetic result is a
   float64, also when both operands were Go ints, so a zero can be the negative zero (printed -0 by
   strconv.FormatFloat) unless the results are normalised (Gen/ArithShape.v), and toBool decides the truth of a float64 by the shape recorded in
   Gen/EvalShape.v (evs_tobool_float_by_value = false: every float64, zero included, is true).
   Same typing discipline as the reference evaluator; outside it Unmodelled. The correspondence runner
   attributes a difference from the reference value to a known quirk only when this model predicts
   exactly the observed text. No proofs here. *)
From Twig Require Import Base.Bytes Model.Ast Model.Value Spec.ExprEval Gen.EvalShape Gen.ArithShape.

(* XFlt z nz: the float64 with integral value z; nz marks the negative zero (only when z = 0) *)
Inductive xe_val := XInt (z : Z) | XFlt (z : Z) (nz : bool) | XBool (b : bool) | XStr (s : bytes).

(* the negative zero survives only while Gen/ArithShape.v says that results are not passed through plusZero *)
Definition xe_flt (z : Z) (nz : bool) : outcome xe_val :=
  if spec_in_range z then Ok (XFlt z (nz && (z =? 0)%Z && negb ar_negzero_normalised)) else Unmodelled.
Definition xe_num (v : xe_val) : option (Z * bool) :=
  match v with XInt z => Some (z, false) | XFlt z nz => Some (z, nz) | _ => None end.
Definition xe_negative (z : Z) (nz : bool) : bool := (z <? 0)%Z || ((z =? 0)%Z && nz).

Definition xe_show (v : xe_val) : bytes :=
  match v with
  | XInt z => spec_show_int z
  | XFlt z nz => if (z =? 0)%Z && nz then b#"-0" else spec_show_int z
  | XBool true => b#"true"
  | XBool false => b#"false"
  | XStr s => s
  end.

Definition xe_truthy (v : xe_val) : option bool :=
  match v with
  | XBool b => Some b
  | XInt z => Some (negb (z =? 0)%Z)
  | XFlt z _ => Some (if evs_tobool_float_by_value then negb (z =? 0)%Z else true)
  | XStr s => if bytes_eqb s b#"0" then None else Some (match s with [] => false | _ => true end)
  end.

Definition xe_arith (o : binop) (x : Z) (nx : bool) (y : Z) (ny : bool) : outcome xe_val :=
  match o with
  | BAdd => xe_flt (x + y) (nx && ny)
  | BSub => xe_flt (x - y) (nx && negb ny)
  | BMul => xe_flt (x * y) (xorb (xe_negative x nx) (xe_negative y ny))
  | BDiv => if (y =? 0)%Z then Err EOther
            else if (Z.rem x y =? 0)%Z then xe_flt (Z.quot x y) (xorb (xe_negative x nx) (xe_negative y ny))
            else Unmodelled
  | BMod => if (y =? 0)%Z then Err EOther else xe_flt (Z.rem x y) (xe_negative x nx)
  | BPow => if ((y <? 0) || (spec_pow_limit <? y))%Z then Unmodelled
            else xe_flt (Z.pow x y) (nx && Z.odd y)
  | _ => Unmodelled
  end.

Definition xe_equal (a b : xe_val) : option bool :=
  match xe_num a, xe_num b with
  | Some (x, _), Some (y, _) => Some (x =? y)%Z
  | _, _ =>
      match a, b with
      | XBool x, XBool y => Some (Bool.eqb x y)
      | XStr x, XStr y => if spec_plain_str x && spec_plain_str y then Some (bytes_eqb x y) else None
      | _, _ => None
      end
  end.

Definition xe_binop (o : binop) (a b : xe_val) : outcome xe_val :=
  match o with
  | BAdd | BSub | BMul | BDiv | BMod | BPow =>
      match xe_num a, xe_num b with Some (x, nx), Some (y, ny) => xe_arith o x nx y ny | _, _ => Unmodelled end
  | BLt | BGt | BLe | BGe =>
      match xe_num a, xe_num b with
      | Some (x, _), Some (y, _) =>
          Ok (XBool (match o with BLt => (x <? y)%Z | BGt => (y <? x)%Z | BLe => (x <=? y)%Z | _ => (y <=? x)%Z end))
      | _, _ => Unmodelled
      end
  | BEq => match xe_equal a b with Some r => Ok (XBool r) | None => Unmodelled end
  | BNe => match xe_equal a b with Some r => Ok (XBool (negb r)) | None => Unmodelled end
  | BConcat => Ok (XStr (xe_show a ++ xe_show b))
  | BStartsWith => match a, b with XStr x, XStr y => Ok (XBool (prefixb y x)) | _, _ => Unmodelled end
  | BEndsWith => match a, b with XStr x, XStr y => Ok (XBool (spec_suffixb y x)) | _, _ => Unmodelled end
  | _ => Unmodelled
  end.

Definition xe_lookup (env : spec_env) (x : bytes) : outcome xe_val :=
  match assoc_bytes env x with
  | Some (VInt z) => if spec_in_range z then Ok (XInt z) else Unmodelled
  | Some (VBool b) => Ok (XBool b)
  | Some (VStr s) => Ok (XStr s)
  | _ => Unmodelled
  end.

Fixpoint xe_eval (env : spec_env) (e : expr) : outcome xe_val :=
  match e with
  | ELit (LInt z) => if spec_in_range z then Ok (XInt z) else Unmodelled
  | ELit (LBool b) => Ok (XBool b)
  | ELit (LStr s) => Ok (XStr s)
  | ELit LNull => Unmodelled
  | EVar x => xe_lookup env x
  | EUn o a =>
      match xe_eval env a with
      | Ok v =>
          match o with
          | UNot => match xe_truthy v with Some t => Ok (XBool (negb t)) | None => Unmodelled end
          | UNeg => match xe_num v with Some (z, nz) => xe_flt (- z) (negb nz) | None => Unmodelled end
          | UPos => match xe_num v with Some (z, nz) => xe_flt z nz | None => Unmodelled end
          end
      | r => r
      end
  | EBin BAnd l r =>
      match xe_eval env l with
      | Ok vl =>
          match xe_truthy vl with
          | Some false => Ok (XBool false)
          | Some true =>
              match xe_eval env r with
              | Ok vr => match xe_truthy vr with Some t => Ok (XBool t) | None => Unmodelled end
              | x => x
              end
          | None => Unmodelled
          end
      | x => x
      end
  | EBin BOr l r =>
      match xe_eval env l with
      | Ok vl =>
          match xe_truthy vl with
          | Some true => Ok (XBool true)
          | Some false =>
              match xe_eval env r with
              | Ok vr => match xe_truthy vr with Some t => Ok (XBool t) | None => Unmodelled end
              | x => x
              end
          | None => Unmodelled
          end
      | x => x
      end
  | EBin o l r =>
      match xe_eval env l with
      | Ok vl => match xe_eval env r with
                 | Ok vr => xe_binop o vl vr
                 | x => x
                 end
      | x => x
      end
  | ECond c t f =>
      match xe_eval env c with
      | Ok vc =>
          match xe_truthy vc with
          | Some true => xe_eval env t
          | Some false => xe_eval env f
          | None => Unmodelled
          end
      | x => x
      end
  | _ => Unmodelled
  end.

Definition xe_print (env : spec_env) (e : expr) : outcome bytes :=
  match xe_eval env e with
  | Ok v => Ok (xe_show v)
  | Err x => Err x
  | OutOfFuel => OutOfFuel
  | Unmodelled => Unmodelled
  end.

Definition xe_truth (env : spec_env) (e : expr) : option bool :=
  match xe_eval env e with Ok v => xe_truthy v | _ => None end.
