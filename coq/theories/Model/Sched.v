(* Interleaving model of concurrent use of one engine (C02).

   Mirrors, as atomic steps over shared locations:
     twig.go    Engine.Load (RLock read of templates; unlocked loader read and parse; Lock write),
                Engine.RegisterString (parse unlocked; Lock write), Engine.Render / RenderTo /
                ParseTemplate + Template.Render (private render context)
     loader.go  FileSystemLoader.Load / GetModifiedTime (one critical section of l.mu each, reading and
                writing the templatePaths memo), FileSystemLoader.Exists (no lock, no memo),
                ArrayLoader.Load (immutable map), ChainLoader.Load (Exists, then Load)
     zero_alloc_tokenizer.go  Intern (RLock lookup; Lock re-check and insert)
     render.go  getAttribute (RLock lookup; then a Lock section: statistics on a hit, re-check and insert
                on a miss), RenderContext.currentTemplateName (walks the context chain)
     node.go    Include / Extends / Import / FromImport: relative name resolved, Load, Load of the
                unresolved name when the resolved one is not found, render in a derived context

   A call is a program: a tree whose nodes are atomic steps on the shared state and whose edges are the
   possible answers (sc_prog). Private state (parser, render context with its current-template chain,
   output buffer) lives in the continuation and is invisible to other threads by construction. Every step
   is annotated with the locations it reads and writes (sc_op_access) and the locks it holds (sc_op_locks);
   the locks are looked up in Gen/LockMap.v, that is in what the code says now.

   Two variants of relative-name resolution: ScVCtx (the render context's own chain; the tree after
   290eea6) and ScVCell (an engine-wide cell written by Render/RenderTo; the pinned tree). Which one the
   model uses is computed from Gen/LockMap.v (sc_cur_variant).

   Templates are given as syntax trees of a small language (text, variables, attribute access, include,
   blocks, extends, macro import and call); the OCaml driver prints them in Twig syntax. Left out: the
   expression language, filters, loops (other properties), eviction in the attribute cache (C20), pool
   internals.

   No proofs in this file. *)
From Twig Require Import Base.Bytes Gen.LockMap.

(* ------------------------------------------------------------------ paths *)
Definition sc_slash : byte := x2f.

Fixpoint sc_split_aux (cur s : bytes) : list bytes :=
  match s with
  | [] => [rev cur]
  | c :: r => if Byte.eqb c sc_slash then rev cur :: sc_split_aux [] r else sc_split_aux (c :: cur) r
  end.
Definition sc_split (s : bytes) : list bytes := sc_split_aux [] s.

(* path.Clean on a relative path: stack is the cleaned prefix, reversed *)
Fixpoint sc_clean_segs (stack segs : list bytes) : list bytes :=
  match segs with
  | [] => rev stack
  | s :: r =>
      if bytes_eqb s [] || bytes_eqb s b#"." then sc_clean_segs stack r
      else if bytes_eqb s b#".." then
        match stack with
        | top :: st' => if bytes_eqb top b#".." then sc_clean_segs (s :: stack) r else sc_clean_segs st' r
        | [] => sc_clean_segs [s] r
        end
      else sc_clean_segs (s :: stack) r
  end.

Fixpoint sc_join_segs (l : list bytes) : bytes :=
  match l with
  | [] => []
  | [a] => a
  | a :: r => a ++ sc_slash :: sc_join_segs r
  end.

Definition sc_of_segs (l : list bytes) : bytes :=
  match l with [] => b#"." | _ => sc_join_segs l end.

(* filepath.Clean, filepath.Dir, filepath.Join(dir, rel) for slash-separated relative paths *)
Definition sc_clean (s : bytes) : bytes := sc_of_segs (sc_clean_segs [] (sc_split s)).
Definition sc_dir (s : bytes) : bytes := sc_of_segs (sc_clean_segs [] (removelast (sc_split s))).
Definition sc_join_path (dir rel : bytes) : bytes := sc_clean (dir ++ sc_slash :: rel).

(* strings.HasPrefix(name, dot-slash) || strings.HasPrefix(name, dot-dot-slash) *)
Definition sc_is_rel (n : bytes) : bool := prefixb b#"./" n || prefixb b#"../" n.

Definition sc_has_suffix (suf s : bytes) : bool := prefixb (rev suf) (rev s).

(* FileSystemLoader: filepath.Join(path, name), suffix added when missing; the key is the path below the root *)
Definition sc_fs_key (n : bytes) : bytes :=
  let c := sc_clean n in if sc_has_suffix b#".twig" c then c else c ++ b#".twig".

(* ------------------------------------------------------------------ templates *)
Inductive sc_flat :=
| ScFText (t : bytes)            (* literal text *)
| ScFVar (v : bytes)             (* {{ v }} *)
| ScFAttr (v a : bytes).         (* {{ v.a }} on a struct value: goes through the attribute cache *)

Inductive sc_item :=
| ScItFlat (f : sc_flat)
| ScItInclude (n : bytes)                       (* {% include 'n' %} *)
| ScItBlock (b : bytes) (body : list sc_flat)   (* {% block b %}body{% endblock %} *)
| ScItMacro (from : bool) (n m arg : bytes).    (* {% import 'n' as q %}{{ q.m(arg) }}  /  {% from 'n' import m %}{{ m(arg) }} *)

Record sc_tpl := mk_sc_tpl {
  tp_extends : option bytes;                    (* {% extends 'p' %} *)
  tp_items : list sc_item;
  tp_macros : list (bytes * list sc_flat)       (* {% macro m(p) %}body{% endmacro %}; the parameter is called p *)
}.

(* a source text: either one the parser rejects, or the printed form of a tree *)
Inductive sc_src := ScSrcBad | ScSrcTpl (t : sc_tpl).
Definition sc_parse (s : sc_src) : option sc_tpl := match s with ScSrcBad => None | ScSrcTpl t => Some t end.

Inductive sc_val := ScVStr (s : bytes) | ScVObj (ty : nat) (fields : list bytes).
Definition sc_vars := list (bytes * sc_val).

Fixpoint sc_tpl_blocks (items : list sc_item) : list (bytes * list sc_flat) :=
  match items with
  | [] => []
  | ScItBlock b body :: r => (b, body) :: sc_tpl_blocks r
  | _ :: r => sc_tpl_blocks r
  end.

Definition sc_flat_idents (f : sc_flat) : list bytes :=
  match f with ScFText _ => [] | ScFVar v => [v] | ScFAttr v a => [v; a] end.
Fixpoint sc_item_idents (items : list sc_item) : list bytes :=
  match items with
  | [] => []
  | ScItFlat f :: r => sc_flat_idents f ++ sc_item_idents r
  | ScItInclude _ :: r => sc_item_idents r
  | ScItBlock b body :: r => b :: flat_map sc_flat_idents body ++ sc_item_idents r
  | ScItMacro _ _ m arg :: r => m :: arg :: sc_item_idents r
  end.
(* the identifiers the tokenizer interns while scanning the source *)
Definition sc_src_idents (s : sc_src) : list bytes :=
  match s with ScSrcBad => [] | ScSrcTpl t => sc_item_idents (tp_items t) ++ map fst (tp_macros t) end.

(* ------------------------------------------------------------------ the configured engine (never changes during the workload) *)
Record sc_file := mk_sc_file { fl_src : sc_src; fl_mtime : Z }.
(* a FileSystemLoader (ld_fs, several search paths, key = cleaned name with suffix) or an ArrayLoader (one table, key = name) *)
Record sc_loader := mk_sc_loader { ld_fs : bool; ld_dirs : list (list (bytes * sc_file)) }.

Record sc_world := mk_sc_world {
  w_loaders : list sc_loader;          (* Engine.loaders in registration order *)
  w_chain : bool;                      (* all of them behind one ChainLoader *)
  w_reg : list (bytes * sc_src);       (* RegisterString calls made while configuring *)
  w_regt : list (bytes * sc_src);      (* RegisterTemplate(name, ParseTemplate(source)) made while configuring: the Template has no name of its own *)
  w_types : list (list bytes);         (* field names of the struct types of context values *)
  w_cache : bool;                      (* Environment.cache *)
  w_auto : bool                        (* Engine.autoReload *)
}.

Definition sc_loader_key (l : sc_loader) (n : bytes) : bytes := if ld_fs l then sc_fs_key n else n.
(* a key that leaves the root is never generated; the model answers not-found *)
Definition sc_key_ok (l : sc_loader) (k : bytes) : bool := negb (ld_fs l && (prefixb b#"../" k || bytes_eqb k b#"..")).

Fixpoint sc_find_dir (dirs : list (list (bytes * sc_file))) (k : bytes) (d : nat) : option (nat * sc_file) :=
  match dirs with
  | [] => None
  | dir :: r => match assoc_bytes dir k with Some f => Some (d, f) | None => sc_find_dir r k (S d) end
  end.
Definition sc_loader_find (l : sc_loader) (n : bytes) : option (nat * sc_file) :=
  let k := sc_loader_key l n in if sc_key_ok l k then sc_find_dir (ld_dirs l) k 0 else None.
Definition sc_file_at (l : sc_loader) (d : nat) (n : bytes) : option sc_file :=
  let k := sc_loader_key l n in
  if sc_key_ok l k then match nth_error (ld_dirs l) d with Some dir => assoc_bytes dir k | None => None end else None.
Definition sc_loader_get (l : sc_loader) (n : bytes) : option sc_src :=
  match sc_loader_find l n with Some (_, f) => Some (fl_src f) | None => None end.
Definition sc_loader_mtime (l : sc_loader) (n : bytes) : option Z :=
  match sc_loader_find l n with Some (_, f) => Some (fl_mtime f) | None => None end.

(* the source the loaders give for a name: the first loader that has it *)
Fixpoint sc_loaders_src (ls : list sc_loader) (n : bytes) : option sc_src :=
  match ls with
  | [] => None
  | l :: r => match sc_loader_get l n with Some s => Some s | None => sc_loaders_src r n end
  end.
(* THE source of a name *)
Definition sc_src_of (w : sc_world) (n : bytes) : option sc_src :=
  match sc_loaders_src (w_loaders w) n with
  | Some s => Some s
  | None => match assoc_bytes (w_reg w) n with Some s => Some s | None => assoc_bytes (w_regt w) n end
  end.
(* Template.name of what Load(n) returns: the name, except for a template registered without one *)
Definition sc_name_of (w : sc_world) (n : bytes) : bytes :=
  match assoc_bytes (w_regt w) n with Some _ => [] | None => n end.

Fixpoint sc_index_of (a : bytes) (l : list bytes) (i : nat) : option nat :=
  match l with [] => None | x :: r => if bytes_eqb x a then Some i else sc_index_of a r (S i) end.
(* what reflect finds for (type, attribute): the index of the field *)
Definition sc_attr_resolve (w : sc_world) (ty : nat) (a : bytes) : option nat :=
  sc_index_of a (nth ty (w_types w) []) 0.

(* ------------------------------------------------------------------ shared state *)
(* Template.nodes / name / loader / lastModified of a *Template in Engine.templates *)
Record sc_entry := mk_sc_entry { en_tpl : sc_tpl; en_name : bytes; en_loader : option nat; en_mtime : Z }.

Record sc_shared := mk_sc_shared {
  sh_cache : list (bytes * sc_entry);            (* Engine.templates, guarded by Engine.mu *)
  sh_memo : list (list (bytes * nat));           (* FileSystemLoader.templatePaths per loader (name -> search path), guarded by its mu *)
  sh_strs : list bytes;                          (* globalCache.strings, guarded by its embedded RWMutex *)
  sh_attrs : list (nat * bytes * option nat);    (* attributeCache.m, guarded by its embedded RWMutex *)
  sh_cell : bytes                                (* Engine.currentTemplate (pinned tree only) *)
}.

Inductive sc_wsite := ScWLoad | ScWReg.          (* which function performs the cache write *)

Inductive sc_op :=
| ScOpCacheRead (n : bytes)                          (* Engine.Load: mu.RLock; templates[name]; mu.RUnlock *)
| ScOpCacheWrite (site : sc_wsite) (n : bytes) (e : sc_entry)  (* Engine.Load / RegisterString: mu.Lock; templates[name] = t; mu.Unlock *)
| ScOpLoaderRead (fs : bool) (i : nat) (n : bytes)   (* loaders[i].Load(name) *)
| ScOpLoaderStat (i : nat) (n : bytes)               (* FileSystemLoader.GetModifiedTime *)
| ScOpLoaderExists (i : nat) (n : bytes)             (* Exists, as called by ChainLoader.Load *)
| ScOpStrRead (s : bytes)                            (* Intern: RLock; lookup; RUnlock *)
| ScOpStrWrite (s : bytes)                           (* Intern: Lock; re-check; insert; Unlock *)
| ScOpAttrRead (ty : nat) (a : bytes)                (* getAttribute: RLock; lookup; RUnlock *)
| ScOpAttrTouch (ty : nat) (a : bytes)               (* getAttribute, hit: Lock; re-check; statistics; Unlock *)
| ScOpAttrFill (ty : nat) (a : bytes)                (* getAttribute, miss: Lock; re-check; resolve; insert; Unlock *)
| ScOpCellRead                                       (* pinned: e.currentTemplate read, no lock *)
| ScOpCellWrite (n : bytes).                         (* pinned: e.currentTemplate = name, no lock *)

Inductive sc_resp :=
| ScRUnit
| ScRCache (o : option sc_entry)
| ScRSrc (o : option sc_src)
| ScRStat (o : option Z)
| ScRBool (b : bool)
| ScRAttr (o : option (option nat))
| ScRName (n : bytes).

Fixpoint sc_upd_nth {A} (l : list A) (i : nat) (x : A) : list A :=
  match l, i with
  | [], _ => []
  | _ :: r, O => x :: r
  | a :: r, S j => a :: sc_upd_nth r j x
  end.

Fixpoint sc_attr_lookup (l : list (nat * bytes * option nat)) (ty : nat) (a : bytes) : option (option nat) :=
  match l with
  | [] => None
  | (ty', a', e) :: r => if Nat.eqb ty' ty && bytes_eqb a' a then Some e else sc_attr_lookup r ty a
  end.

Definition sc_set_cache (sh : sc_shared) c := mk_sc_shared c (sh_memo sh) (sh_strs sh) (sh_attrs sh) (sh_cell sh).
Definition sc_set_memo (sh : sc_shared) m := mk_sc_shared (sh_cache sh) m (sh_strs sh) (sh_attrs sh) (sh_cell sh).
Definition sc_set_strs (sh : sc_shared) s := mk_sc_shared (sh_cache sh) (sh_memo sh) s (sh_attrs sh) (sh_cell sh).
Definition sc_set_attrs (sh : sc_shared) a := mk_sc_shared (sh_cache sh) (sh_memo sh) (sh_strs sh) a (sh_cell sh).
Definition sc_set_cell (sh : sc_shared) c := mk_sc_shared (sh_cache sh) (sh_memo sh) (sh_strs sh) (sh_attrs sh) c.

(* the file a FileSystemLoader ends up with: through the memo when it has the name and the file is there,
   otherwise by searching the paths in order (and remembering where it was found) *)
Definition sc_fs_lookup (l : sc_loader) (memo : list (bytes * nat)) (n : bytes) : option sc_file * list (bytes * nat) :=
  match (match assoc_bytes memo n with Some d => sc_file_at l d n | None => None end) with
  | Some f => (Some f, memo)
  | None => match sc_loader_find l n with
            | Some (d, f) => (Some f, (n, d) :: memo)
            | None => (None, memo)
            end
  end.

(* FileSystemLoader.GetModifiedTime: a memoised path is stat'ed directly; when that file is gone the call fails (and
   drops the entry) without searching the other paths -- the next call searches again *)
Definition sc_memo_remove (memo : list (bytes * nat)) (n : bytes) : list (bytes * nat) :=
  filter (fun kv => negb (bytes_eqb (fst kv) n)) memo.
Definition sc_fs_stat (l : sc_loader) (memo : list (bytes * nat)) (n : bytes) : option Z * list (bytes * nat) :=
  match assoc_bytes memo n with
  | Some d => match sc_file_at l d n with
              | Some f => (Some (fl_mtime f), memo)
              | None => (None, sc_memo_remove memo n)
              end
  | None => match sc_loader_find l n with
            | Some (d, f) => (Some (fl_mtime f), (n, d) :: memo)
            | None => (None, memo)
            end
  end.

(* one atomic step *)
Definition sc_exec (w : sc_world) (op : sc_op) (sh : sc_shared) : sc_shared * sc_resp :=
  match op with
  | ScOpCacheRead n => (sh, ScRCache (assoc_bytes (sh_cache sh) n))
  | ScOpCacheWrite _ n e => (sc_set_cache sh ((n, e) :: sh_cache sh), ScRUnit)
  | ScOpLoaderRead _ i n =>
      match nth_error (w_loaders w) i with
      | None => (sh, ScRSrc None)
      | Some l =>
          if ld_fs l then
            let (o, memo') := sc_fs_lookup l (nth i (sh_memo sh) []) n in
            (sc_set_memo sh (sc_upd_nth (sh_memo sh) i memo'), ScRSrc (option_map fl_src o))
          else (sh, ScRSrc (sc_loader_get l n))
      end
  | ScOpLoaderStat i n =>
      match nth_error (w_loaders w) i with
      | None => (sh, ScRStat None)
      | Some l =>
          if ld_fs l then
            let (o, memo') := sc_fs_stat l (nth i (sh_memo sh) []) n in
            (sc_set_memo sh (sc_upd_nth (sh_memo sh) i memo'), ScRStat o)
          else (sh, ScRStat None)
      end
  | ScOpLoaderExists i n =>
      match nth_error (w_loaders w) i with
      | None => (sh, ScRBool false)
      | Some l => (sh, ScRBool (match sc_loader_get l n with Some _ => true | None => false end))
      end
  | ScOpStrRead s => (sh, ScRBool (existsb (bytes_eqb s) (sh_strs sh)))
  | ScOpStrWrite s => (if existsb (bytes_eqb s) (sh_strs sh) then sh else sc_set_strs sh (s :: sh_strs sh), ScRUnit)
  | ScOpAttrRead ty a => (sh, ScRAttr (sc_attr_lookup (sh_attrs sh) ty a))
  | ScOpAttrTouch _ _ => (sh, ScRUnit)
  | ScOpAttrFill ty a =>
      match sc_attr_lookup (sh_attrs sh) ty a with
      | Some e => (sh, ScRAttr (Some e))
      | None => let e := sc_attr_resolve w ty a in (sc_set_attrs sh ((ty, a, e) :: sh_attrs sh), ScRAttr (Some e))
      end
  | ScOpCellRead => (sh, ScRName (sh_cell sh))
  | ScOpCellWrite n => (sc_set_cell sh n, ScRUnit)
  end.

(* ------------------------------------------------------------------ annotations: locations and locks *)
Inductive sc_loc :=
| ScLocCache                 (* Engine.templates *)
| ScLocMemo (i : nat)        (* loaders[i].templatePaths *)
| ScLocArr (i : nat)         (* loaders[i].templates of an ArrayLoader; paths, suffix of a FileSystemLoader: written only while configuring *)
| ScLocStr                   (* globalCache.strings *)
| ScLocAttr                  (* attributeCache.m, currSize *)
| ScLocCell.                 (* Engine.currentTemplate *)

Inductive sc_lock := ScLkEngine | ScLkLoader (i : nat) | ScLkStr | ScLkAttr.

Definition sc_loc_eqb (a b : sc_loc) : bool :=
  match a, b with
  | ScLocCache, ScLocCache | ScLocStr, ScLocStr | ScLocAttr, ScLocAttr | ScLocCell, ScLocCell => true
  | ScLocMemo i, ScLocMemo j | ScLocArr i, ScLocArr j => Nat.eqb i j
  | _, _ => false
  end.
Definition sc_lock_eqb (a b : sc_lock) : bool :=
  match a, b with
  | ScLkEngine, ScLkEngine | ScLkStr, ScLkStr | ScLkAttr, ScLkAttr => true
  | ScLkLoader i, ScLkLoader j => Nat.eqb i j
  | _, _ => false
  end.

(* (location, is it written) *)
Definition sc_op_access (op : sc_op) : list (sc_loc * bool) :=
  match op with
  | ScOpCacheRead _ => [(ScLocCache, false)]
  | ScOpCacheWrite _ _ _ => [(ScLocCache, true)]
  | ScOpLoaderRead true i _ => [(ScLocMemo i, true); (ScLocArr i, false)]
  | ScOpLoaderRead false i _ => [(ScLocArr i, false)]
  | ScOpLoaderStat i _ => [(ScLocMemo i, true); (ScLocArr i, false)]
  | ScOpLoaderExists i _ => [(ScLocArr i, false)]
  | ScOpStrRead _ => [(ScLocStr, false)]
  | ScOpStrWrite _ => [(ScLocStr, true)]
  | ScOpAttrRead _ _ => [(ScLocAttr, false)]
  | ScOpAttrTouch _ _ => [(ScLocAttr, true)]
  | ScOpAttrFill _ _ => [(ScLocAttr, true)]
  | ScOpCellRead => [(ScLocCell, false)]
  | ScOpCellWrite _ => [(ScLocCell, true)]
  end.

(* ---- the lock a code site holds, from the generated table ---- *)
Definition sc_row := (bytes * bytes * bytes * bool * N)%type.
Definition sc_row_is (o f fn : bytes) (wr : bool) (r : sc_row) : bool :=
  match r with (o', f', fn', wr', _) => bytes_eqb o' o && bytes_eqb f' f && bytes_eqb fn' fn && Bool.eqb wr' wr end.
Definition sc_row_mode (r : sc_row) : N := match r with (_, _, _, _, m) => m end.

(* weakest mode over all accesses of that kind in that function; 0 when the table has none (renamed function) *)
Definition sc_site_mode (tbl : list sc_row) (o f fn : bytes) (wr : bool) : N :=
  match filter (sc_row_is o f fn wr) tbl with
  | [] => 0%N
  | r :: rs => fold_left (fun m x => N.min m (sc_row_mode x)) rs (sc_row_mode r)
  end.

(* (lock, held exclusively) *)
Definition sc_locks_of (lk : sc_lock) (m : N) : list (sc_lock * bool) :=
  match m with 0%N => [] | 1%N => [(lk, false)] | _ => [(lk, true)] end.

Definition sc_op_locks_in (tbl : list sc_row) (op : sc_op) : list (sc_lock * bool) :=
  match op with
  | ScOpCacheRead _ => sc_locks_of ScLkEngine (sc_site_mode tbl b#"Engine" b#"templates" b#"Engine.Load" false)
  | ScOpCacheWrite ScWLoad _ _ => sc_locks_of ScLkEngine (sc_site_mode tbl b#"Engine" b#"templates" b#"Engine.Load" true)
  | ScOpCacheWrite ScWReg _ _ => sc_locks_of ScLkEngine (sc_site_mode tbl b#"Engine" b#"templates" b#"Engine.RegisterString" true)
  | ScOpLoaderRead true i _ =>
      sc_locks_of (ScLkLoader i) (N.min (sc_site_mode tbl b#"FileSystemLoader" b#"templatePaths" b#"FileSystemLoader.Load" false)
                                        (sc_site_mode tbl b#"FileSystemLoader" b#"templatePaths" b#"FileSystemLoader.Load" true))
  | ScOpLoaderRead false _ _ => []
  | ScOpLoaderStat i _ =>
      sc_locks_of (ScLkLoader i) (N.min (sc_site_mode tbl b#"FileSystemLoader" b#"templatePaths" b#"FileSystemLoader.GetModifiedTime" false)
                                        (sc_site_mode tbl b#"FileSystemLoader" b#"templatePaths" b#"FileSystemLoader.GetModifiedTime" true))
  | ScOpLoaderExists _ _ => []
  | ScOpStrRead _ => sc_locks_of ScLkStr (sc_site_mode tbl b#"GlobalStringCache" b#"strings" b#"Intern" false)
  | ScOpStrWrite _ => sc_locks_of ScLkStr (sc_site_mode tbl b#"GlobalStringCache" b#"strings" b#"Intern" true)
  | ScOpAttrRead _ _ => sc_locks_of ScLkAttr (sc_site_mode tbl b#"attributeCache" b#"m" b#"RenderContext.getAttribute" false)
  | ScOpAttrTouch _ _ => sc_locks_of ScLkAttr (sc_site_mode tbl b#"attributeCache" b#"m" b#"RenderContext.getAttribute" true)
  | ScOpAttrFill _ _ => sc_locks_of ScLkAttr (N.min (sc_site_mode tbl b#"attributeCache" b#"m" b#"RenderContext.getAttribute" true)
                                                    (sc_site_mode tbl b#"attributeCache" b#"currSize" b#"RenderContext.getAttribute" true))
  | ScOpCellRead => []
  | ScOpCellWrite _ => []
  end.
Definition sc_op_locks (op : sc_op) : list (sc_lock * bool) := sc_op_locks_in lock_sites op.

(* two steps conflict: a common location, one of them writing it *)
Definition sc_conflict (a b : sc_op) : bool :=
  existsb (fun x => existsb (fun y => sc_loc_eqb (fst x) (fst y) && (snd x || snd y)) (sc_op_access b)) (sc_op_access a).
(* they hold a common lock, at least one of them exclusively *)
Definition sc_common_lock (a b : sc_op) : bool :=
  existsb (fun x => existsb (fun y => sc_lock_eqb (fst x) (fst y) && (snd x || snd y)) (sc_op_locks b)) (sc_op_locks a).

(* ---- the table as a whole ---- *)
(* the configuration interface: the property speaks of an engine once it is configured *)
Definition sc_config_fns : list bytes := [
  b#"ArrayLoader.SetTemplate"; b#"ChainLoader.AddLoader"; b#"FileSystemLoader.SetSuffix";
  b#"Engine.RegisterLoader"; b#"Engine.SetAutoReload"; b#"Engine.SetStrictVars"; b#"Engine.SetCache";
  b#"Engine.SetDebug"; b#"Engine.SetDevelopmentMode"; b#"Engine.EnableSandbox"; b#"Engine.DisableSandbox";
  b#"Engine.AddExtension"; b#"Engine.AddFilter"; b#"Engine.AddFunction"; b#"Engine.AddTest"; b#"Engine.AddGlobal";
  b#"SetDebugLevel"; b#"SetDebugWriter"; b#"newGlobalStringCache" ].

Definition sc_is_config (fn : bytes) : bool := existsb (bytes_eqb fn) sc_config_fns.
Definition sc_row_fn (r : sc_row) : bytes := match r with (_, _, fn, _, _) => fn end.
Definition sc_row_write (r : sc_row) : bool := match r with (_, _, _, wr, _) => wr end.
Definition sc_row_same_loc (a b : sc_row) : bool :=
  match a, b with (o, f, _, _, _), (o', f', _, _, _) => bytes_eqb o o' && bytes_eqb f f' end.

(* every field that some non-configuration function writes is accessed, in every non-configuration function,
   inside a region of the owner's mutex, and written only inside an exclusive region *)
Definition sc_table_ok (tbl : list sc_row) : bool :=
  forallb (fun r =>
    if sc_row_write r && negb (sc_is_config (sc_row_fn r)) then
      forallb (fun r' =>
        if sc_row_same_loc r r' && negb (sc_is_config (sc_row_fn r')) then
          if sc_row_write r' then N.eqb (sc_row_mode r') 2 else N.leb 1 (sc_row_mode r')
        else true) tbl
    else true) tbl.

(* ---- relative names: where the code takes the current template name from ---- *)
Inductive sc_variant := ScVCtx | ScVCell.
Definition sc_relname_fns : list bytes :=
  [b#"ExtendsNode.Render"; b#"FromImportNode.Render"; b#"ImportNode.Render"; b#"IncludeNode.Render"; b#"RenderContext.currentTemplateName"].
Definition sc_variant_of (tbl : list (bytes * bool)) : sc_variant :=
  if forallb (fun fn => match assoc_bytes tbl fn with Some true => true | _ => false end) sc_relname_fns
     && forallb (fun r => snd r) tbl
  then ScVCtx else ScVCell.
Definition sc_cur_variant : sc_variant := sc_variant_of relname_sites.

(* ---- the pooled tokenizer is private between GetTokenizer and ReleaseTokenizer ---- *)
(* events: 0 get, 1 tokenize (writes the buffer), 2 parse (reads the buffer), 3 release tokenizer, 4 release token slice.
   owned: starts with a get, no use after a release, and the buffer is not handed to two pools *)
Fixpoint sc_tok_uses_ok (released : bool) (evs : list N) : bool :=
  match evs with
  | [] => true
  | e :: r =>
      if N.eqb e 1 || N.eqb e 2 then negb released && sc_tok_uses_ok released r
      else if N.eqb e 3 || N.eqb e 4 then sc_tok_uses_ok true r
      else sc_tok_uses_ok released r
  end.
Definition sc_tok_owned (evs : list N) : bool :=
  match evs with
  | e :: r => N.eqb e 0 && sc_tok_uses_ok false r
              && negb (existsb (N.eqb 3) r && existsb (N.eqb 4) r)
              && existsb (N.eqb 2) r
  | [] => false
  end.

(* ------------------------------------------------------------------ programs *)
Inductive sc_prog (R : Type) : Type :=
| ScRet (r : R)
| ScStep (op : sc_op) (k : sc_resp -> sc_prog R).
Arguments ScRet {R} r.
Arguments ScStep {R} op k.

Fixpoint sc_bind {A B} (p : sc_prog A) (f : A -> sc_prog B) : sc_prog B :=
  match p with
  | ScRet a => f a
  | ScStep op k => ScStep op (fun r => sc_bind (k r) f)
  end.

Inductive sc_err := ScENotFound | ScEOther.
(* what a call returns: output bytes, an error class, or the model ran out of fuel *)
Inductive sc_out := ScOOk (b : bytes) | ScOErr (e : sc_err) | ScOFuel.
Inductive sc_lres := ScLOk (n : bytes) (t : sc_tpl) | ScLNotFound | ScLBad.

(* Intern on every identifier: lookup under RLock; on a miss, insert under Lock *)
Fixpoint sc_intern_list {R} (ss : list bytes) (k : sc_prog R) : sc_prog R :=
  match ss with
  | [] => k
  | s :: r => ScStep (ScOpStrRead s) (fun a =>
                match a with
                | ScRBool true => sc_intern_list r k
                | _ => ScStep (ScOpStrWrite s) (fun _ => sc_intern_list r k)
                end)
  end.

(* parser.Parse(source) after a loader supplied it, then the cache write when caching is on *)
Definition sc_finish (w : sc_world) (n : bytes) (s : sc_src) (li : nat) (mt : Z) : sc_prog sc_lres :=
  sc_intern_list (sc_src_idents s)
    (match sc_parse s with
     | None => ScRet ScLBad
     | Some t => if w_cache w
                 then ScStep (ScOpCacheWrite ScWLoad n (mk_sc_entry t n (Some li) mt)) (fun _ => ScRet (ScLOk n t))
                 else ScRet (ScLOk n t)
     end).

(* for _, loader := range e.loaders *)
Fixpoint sc_loader_loop (w : sc_world) (n : bytes) (i : nat) (ls : list sc_loader) : sc_prog sc_lres :=
  match ls with
  | [] => ScRet ScLNotFound
  | l :: rest =>
      ScStep (ScOpLoaderRead (ld_fs l) i n) (fun a =>
        match a with
        | ScRSrc (Some s) =>
            if ld_fs l
            then ScStep (ScOpLoaderStat i n) (fun a2 => sc_finish w n s i (match a2 with ScRStat (Some t) => t | _ => 0%Z end))
            else sc_finish w n s i 0%Z
        | _ => sc_loader_loop w n (S i) rest
        end)
  end.

(* ChainLoader.Load: the first loader whose Exists says yes is asked *)
Fixpoint sc_chain_loop (n : bytes) (i : nat) (ls : list sc_loader) : sc_prog (option sc_src) :=
  match ls with
  | [] => ScRet None
  | l :: rest =>
      ScStep (ScOpLoaderExists i n) (fun a =>
        match a with
        | ScRBool true => ScStep (ScOpLoaderRead (ld_fs l) i n) (fun a2 => match a2 with ScRSrc o => ScRet o | _ => ScRet None end)
        | _ => sc_chain_loop n (S i) rest
        end)
  end.

Definition sc_reload (w : sc_world) (n : bytes) : sc_prog sc_lres :=
  if w_chain w then
    match w_loaders w with
    | [] => ScRet ScLNotFound
    | _ => sc_bind (sc_chain_loop n 0 (w_loaders w)) (fun o =>
             match o with Some s => sc_finish w n s 0 0%Z | None => ScRet ScLNotFound end)
    end
  else sc_loader_loop w n 0 (w_loaders w).

(* does Engine.loaders[li] implement TimestampAwareLoader *)
Definition sc_loader_ts (w : sc_world) (li : nat) : bool :=
  negb (w_chain w) && match nth_error (w_loaders w) li with Some l => ld_fs l | None => false end.

(* Engine.Load *)
Definition sc_load (w : sc_world) (n : bytes) : sc_prog sc_lres :=
  ScStep (ScOpCacheRead n) (fun a =>
    match a with
    | ScRCache (Some e) =>
        match en_loader e with
        | None => ScRet (ScLOk (en_name e) (en_tpl e))                      (* registered: served whatever the settings *)
        | Some li =>
            if w_cache w then
              if negb (w_auto w) then ScRet (ScLOk (en_name e) (en_tpl e))
              else if sc_loader_ts w li then
                ScStep (ScOpLoaderStat li n) (fun a2 =>
                  match a2 with
                  | ScRStat (Some t) => if Z.gtb t (en_mtime e) then sc_reload w n else ScRet (ScLOk (en_name e) (en_tpl e))
                  | _ => sc_reload w n
                  end)
              else ScRet (ScLOk (en_name e) (en_tpl e))
            else sc_reload w n
        end
    | _ => sc_reload w n
    end).

(* ---- render contexts (private) ---- *)
Record sc_ctx := mk_sc_ctx {
  cx_chain : list bytes;                        (* lastLoadedTemplate.name of this context and of its parents *)
  cx_vars : sc_vars;                            (* what GetVariable finds: the context's own map, then its parents' *)
  cx_own : sc_vars;                             (* ctx.context, the context's own map *)
  cx_blocks : list (bytes * list sc_flat)       (* block definitions of more derived templates, most derived first *)
}.

(* RenderContext.currentTemplateName *)
Fixpoint sc_current_name (chain : list bytes) : bytes :=
  match chain with
  | [] => []
  | n :: r => match n with [] => sc_current_name r | _ => n end
  end.

Definition sc_resolve_name (cur nm : bytes) : bytes :=
  match cur with [] => nm | _ => sc_join_path (sc_dir cur) nm end.

(* where the current template name comes from *)
Definition sc_with_current {R} (v : sc_variant) (chain : list bytes) (k : bytes -> sc_prog R) : sc_prog R :=
  match v with
  | ScVCtx => k (sc_current_name chain)
  | ScVCell => ScStep ScOpCellRead (fun a => match a with ScRName n => k n | _ => k [] end)
  end.

(* Include / Extends / Import / FromImport: resolve, Load, fall back to the name as written *)
Definition sc_load_rel (v : sc_variant) (w : sc_world) (chain : list bytes) (nm : bytes) : sc_prog sc_lres :=
  if sc_is_rel nm then
    sc_with_current v chain (fun cur =>
      let rn := sc_resolve_name cur nm in
      sc_bind (sc_load w rn) (fun r =>
        match r with
        | ScLNotFound => if bytes_eqb rn nm then ScRet ScLNotFound else sc_load w nm
        | x => ScRet x
        end))
  else sc_load w nm.

(* getAttribute on a struct value *)
Definition sc_attr_get {R} (ty : nat) (a : bytes) (k : option nat -> sc_prog R) : sc_prog R :=
  ScStep (ScOpAttrRead ty a) (fun r =>
    match r with
    | ScRAttr (Some e) => ScStep (ScOpAttrTouch ty a) (fun _ => k e)
    | _ => ScStep (ScOpAttrFill ty a) (fun r2 => match r2 with ScRAttr (Some e) => k e | _ => k None end)
    end).

Definition sc_var_text (vars : sc_vars) (v : bytes) : bytes :=
  match assoc_bytes vars v with Some (ScVStr s) => s | _ => [] end.

Fixpoint sc_render_flats (vars : sc_vars) (fs : list sc_flat) : sc_prog bytes :=
  match fs with
  | [] => ScRet []
  | f :: r =>
      let rest := fun (b : bytes) => sc_bind (sc_render_flats vars r) (fun b2 => ScRet (b ++ b2)) in
      match f with
      | ScFText t => rest t
      | ScFVar v => rest (sc_var_text vars v)
      | ScFAttr v a =>
          match assoc_bytes vars v with
          | Some (ScVObj ty fields) => sc_attr_get ty a (fun e => rest (match e with Some i => nth i fields [] | None => [] end))
          | _ => rest []
          end
      end
  end.

Definition sc_lres_err (r : sc_lres) : sc_out :=
  match r with ScLNotFound => ScOErr ScENotFound | _ => ScOErr ScEOther end.

Definition sc_render_item (rec : sc_ctx -> sc_tpl -> sc_prog sc_out) (v : sc_variant) (w : sc_world)
    (cx : sc_ctx) (blocks : list (bytes * list sc_flat)) (it : sc_item) : sc_prog sc_out :=
  match it with
  | ScItFlat f => sc_bind (sc_render_flats (cx_vars cx) [f]) (fun b => ScRet (ScOOk b))
  | ScItBlock b body =>
      let body' := match assoc_bytes blocks b with Some x => x | None => body end in
      sc_bind (sc_render_flats (cx_vars cx) body') (fun o => ScRet (ScOOk o))
  | ScItInclude n =>
      sc_bind (sc_load_rel v w (cx_chain cx) n) (fun r =>
        match r with
        | ScLOk n' t => rec (mk_sc_ctx (n' :: cx_chain cx) (cx_vars cx) [] []) t   (* ctx.Clone(): empty own map, parent = ctx; lastLoadedTemplate = template *)
        | e => ScRet (sc_lres_err e)
        end)
  | ScItMacro _ n m arg =>
      sc_bind (sc_load_rel v w (cx_chain cx) n) (fun r =>
        match r with
        | ScLOk n' t =>
            (* the imported template is rendered into io.Discard with a fresh context to collect its macros *)
            sc_bind (rec (mk_sc_ctx [n'] [] [] []) t) (fun o =>
              match o with
              | ScOOk _ =>
                  match (match tp_extends t with Some _ => None | None => assoc_bytes (tp_macros t) m end) with
                  | Some body =>
                      let argv := match assoc_bytes (cx_vars cx) arg with Some x => x | None => ScVStr [] end in
                      sc_bind (sc_render_flats [(b#"p", argv)] body) (fun b => ScRet (ScOOk b))
                  | None => ScRet (ScOErr ScEOther)
                  end
              | e => ScRet e
              end)
        | e => ScRet (sc_lres_err e)
        end)
  end.

Fixpoint sc_render_items (rec : sc_ctx -> sc_tpl -> sc_prog sc_out) (v : sc_variant) (w : sc_world)
    (cx : sc_ctx) (blocks : list (bytes * list sc_flat)) (items : list sc_item) : sc_prog sc_out :=
  match items with
  | [] => ScRet (ScOOk [])
  | it :: rest =>
      sc_bind (sc_render_item rec v w cx blocks it) (fun o =>
        match o with
        | ScOOk b1 => sc_bind (sc_render_items rec v w cx blocks rest) (fun o2 =>
                        match o2 with ScOOk b2 => ScRet (ScOOk (b1 ++ b2)) | e => ScRet e end)
        | e => ScRet e
        end)
  end.

(* RootNode.Render: register the blocks, follow extends, or render the children *)
Fixpoint sc_render (fuel : nat) (v : sc_variant) (w : sc_world) (cx : sc_ctx) (t : sc_tpl) : sc_prog sc_out :=
  match fuel with
  | O => ScRet ScOFuel
  | S f =>
      let blocks := cx_blocks cx ++ sc_tpl_blocks (tp_items t) in
      match tp_extends t with
      | Some pn =>
          sc_bind (sc_load_rel v w (cx_chain cx) pn) (fun r =>
            match r with
            | ScLOk n' pt =>
                (* NewRenderContext(env, ctx.context, engine): a copy of the own map; lastLoadedTemplate = parent template.
                   Whether the new context also gets the parent chain (and with it the variables an include reaches
                   through its parents) is read off the code: Gen/LockMap.v extends_keeps_parent *)
                sc_render f v w (mk_sc_ctx [n'] (if extends_keeps_parent then cx_vars cx else cx_own cx) (cx_own cx) blocks) pt
            | e => ScRet (sc_lres_err e)
            end)
      | None => sc_render_items (sc_render f v w) v w cx blocks (tp_items t)
      end
  end.

(* ---- calls ---- *)
Inductive sc_call :=
| ScCRender (to : bool) (n : bytes) (vars : sc_vars)   (* Engine.Render / Engine.RenderTo *)
| ScCLoad (n : bytes)                                  (* Engine.Load *)
| ScCParse (s : sc_src) (vars : sc_vars)               (* Engine.ParseTemplate, then Template.Render of the result *)
| ScCRegister (n : bytes) (s : sc_src).                (* Engine.RegisterString *)

(* pinned Engine.Render: prev := e.currentTemplate; e.currentTemplate = name; defer restore *)
Definition sc_cell_wrap (v : sc_variant) (n : bytes) (p : sc_prog sc_out) : sc_prog sc_out :=
  match v with
  | ScVCtx => p
  | ScVCell =>
      ScStep ScOpCellRead (fun a =>
        let prev := match a with ScRName x => x | _ => [] end in
        ScStep (ScOpCellWrite n) (fun _ =>
          sc_bind p (fun o => ScStep (ScOpCellWrite prev) (fun _ => ScRet o))))
  end.

Definition sc_call_prog (fuel : nat) (v : sc_variant) (w : sc_world) (c : sc_call) : sc_prog sc_out :=
  match c with
  | ScCRender _ n vars =>
      sc_cell_wrap v n
        (sc_bind (sc_load w n) (fun r =>
           match r with
           | ScLOk n' t => sc_render fuel v w (mk_sc_ctx [n'] vars vars []) t
           | e => ScRet (sc_lres_err e)
           end))
  | ScCLoad n =>
      sc_bind (sc_load w n) (fun r => match r with ScLOk _ _ => ScRet (ScOOk []) | e => ScRet (sc_lres_err e) end)
  | ScCParse s vars =>
      sc_intern_list (sc_src_idents s)
        (match sc_parse s with
         | None => ScRet (ScOErr ScEOther)
         | Some t => sc_render fuel v w (mk_sc_ctx [[]] vars vars []) t      (* the template has no name *)
         end)
  | ScCRegister n s =>
      sc_intern_list (sc_src_idents s)
        (match sc_parse s with
         | None => ScRet (ScOErr ScEOther)
         | Some t => ScStep (ScOpCacheWrite ScWReg n (mk_sc_entry t n None 0%Z)) (fun _ => ScRet (ScOOk []))
         end)
  end.

(* a goroutine: its calls one after the other *)
Fixpoint sc_thread_prog (fuel : nat) (v : sc_variant) (w : sc_world) (cs : list sc_call) : sc_prog (list sc_out) :=
  match cs with
  | [] => ScRet []
  | c :: r => sc_bind (sc_call_prog fuel v w c) (fun o => sc_bind (sc_thread_prog fuel v w r) (fun os => ScRet (o :: os)))
  end.

(* ------------------------------------------------------------------ the machine *)
Record sc_state := mk_sc_state { st_sh : sc_shared; st_thr : list (sc_prog (list sc_out)) }.

(* one step of thread i; a finished or unknown thread does nothing *)
Definition sc_step (w : sc_world) (st : sc_state) (i : nat) : sc_state :=
  match nth_error (st_thr st) i with
  | Some (ScStep op k) =>
      let (sh', a) := sc_exec w op (st_sh st) in
      mk_sc_state sh' (sc_upd_nth (st_thr st) i (k a))
  | _ => st
  end.

Definition sc_run (w : sc_world) (sched : list nat) (st : sc_state) : sc_state := fold_left (sc_step w) sched st.

Definition sc_result_of (p : sc_prog (list sc_out)) : option (list sc_out) :=
  match p with ScRet r => Some r | ScStep _ _ => None end.
Definition sc_results (st : sc_state) : list (option (list sc_out)) := map sc_result_of (st_thr st).
Definition sc_complete (st : sc_state) : bool :=
  forallb (fun p => match sc_result_of p with Some _ => true | None => false end) (st_thr st).

(* the step thread i would take next *)
Definition sc_enabled (st : sc_state) (i : nat) : option sc_op :=
  match nth_error (st_thr st) i with Some (ScStep op _) => Some op | _ => None end.

(* configuration: registrations made before the workload are in the template map *)
Fixpoint sc_init_cache (reg : list (bytes * sc_src)) : list (bytes * sc_entry) :=
  match reg with
  | [] => []
  | (n, s) :: r => match sc_parse s with
                   | Some t => (n, mk_sc_entry t n None 0%Z) :: sc_init_cache r
                   | None => sc_init_cache r
                   end
  end.
(* RegisterTemplate(n, ParseTemplate(s)): Template.name stays empty *)
Fixpoint sc_init_cache_t (reg : list (bytes * sc_src)) : list (bytes * sc_entry) :=
  match reg with
  | [] => []
  | (n, s) :: r => match sc_parse s with
                   | Some t => (n, mk_sc_entry t [] None 0%Z) :: sc_init_cache_t r
                   | None => sc_init_cache_t r
                   end
  end.
Definition sc_init_shared (w : sc_world) : sc_shared :=
  mk_sc_shared (sc_init_cache (w_reg w) ++ sc_init_cache_t (w_regt w)) (map (fun _ => []) (w_loaders w)) [] [] [].

Definition sc_init_with (fuel : nat) (v : sc_variant) (w : sc_world) (threads : list (list sc_call)) : sc_state :=
  mk_sc_state (sc_init_shared w) (map (sc_thread_prog fuel v w) threads).
(* the model of the tree as it is now *)
Definition sc_init (fuel : nat) (w : sc_world) (threads : list (list sc_call)) : sc_state :=
  sc_init_with fuel sc_cur_variant w threads.

(* a later phase of a workload: the engine as the previous phase left it (sh), the world as it is now (files may
   have been rewritten while no call was running), new calls *)
Definition sc_phase_state (fuel : nat) (w : sc_world) (sh : sc_shared) (threads : list (list sc_call)) : sc_state :=
  mk_sc_state sh (map (sc_thread_prog fuel sc_cur_variant w) threads).

(* the calls one after another: thread i runs alone for k steps, then the next one *)
Definition sc_serial_schedule (order : list nat) (k : nat) : list nat := flat_map (fun i => repeat i k) order.

(* ---- executable summaries for the driver ---- *)
Definition sc_table_ok_now : bool := sc_table_ok lock_sites && lockmap_shape_ok.
Definition sc_tok_owned_now : bool := sc_tok_owned parse_events.
