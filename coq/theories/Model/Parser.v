(* Model of the expression parser of parser.go as it is now: parseExpression (binary levels, then
   the conditional operator), parseBinaryLevel (precedence climbing, every operator left associative:
   the right operand is parsed at precedence + prec_right_incr, also for the power operator),
   peekBinaryOperator, parseOperand (simple expression, then the postfix loop: index, filters, attribute / method),
   parseSimpleExpression (unary not / - / +, literals, names with calls and attribute chains, array and
   hash literals, parentheses), parseFilters, parseArrayExpression, parseMapExpression, parseTest.
   Tokens are those of Model/ExprLexer.v; the end of the list stands for the tag-end token that follows
   an expression in the real stream (it matches no test). Precedences, the word operators and the
   start level come from Gen/PrecTable.v. Results are trees of Model/Ast.v; node shapes that Ast.v
   cannot express (float literals, the operators && and ||, is / is not used as plain binary
   operators) give Unmodelled. The Go shape UnaryNode(not, TestNode) built for is-not and for the
   postfix not-defined form is represented by ETest with neg = true. No proofs here. *)
From Twig Require Import Base.Bytes Model.Ast Model.ExprLexer Gen.PrecTable.

Definition xp_res := outcome (expr * list xtok).

Definition xp_at_punct (c : bytes) (ts : list xtok) : bool :=
  match ts with XT XPunct v :: _ => bytes_eqb v c | _ => false end.
Definition xp_name_at (ts : list xtok) : bool :=
  match ts with XT XName _ :: _ => true | _ => false end.
Definition xp_nonempty (ts : list xtok) : bool := match ts with [] => false | _ => true end.

(* ---- getOperatorPrecedence ---- *)
Definition xp_get_prec (op : bytes) : nat :=
  match assoc_bytes prec_table op with Some p => p | None => prec_default end.

(* ---- peekBinaryOperator: operator spelling and number of tokens ---- *)
Definition xp_peek (ts : list xtok) : option (bytes * nat) :=
  match ts with
  | XT XOp v :: _ => Some (v, 1)
  | XT XName v :: r =>
      match assoc_bytes peek_words v with
      | Some (alts, dflt) =>
          let next := match r with XT XName w :: _ => w | _ => [] end in
          match assoc_bytes alts next with
          | Some op => Some (op, 2)
          | None => Some (dflt, 1)
          end
      | None => None
      end
  | _ => None
  end.

(* ---- operator spellings of BinaryNode / UnaryNode ---- *)
Definition binop_str (o : binop) : bytes :=
  match o with
  | BOr => b#"or" | BAnd => b#"and"
  | BEq => b#"==" | BNe => b#"!=" | BLt => b#"<" | BGt => b#">" | BLe => b#"<=" | BGe => b#">="
  | BIn => b#"in" | BNotIn => b#"not in" | BMatches => b#"matches"
  | BStartsWith => b#"starts with" | BEndsWith => b#"ends with"
  | BAdd => b#"+" | BSub => b#"-" | BConcat => b#"~"
  | BMul => b#"*" | BDiv => b#"/" | BMod => b#"%" | BPow => b#"^"
  end.
Definition all_binops : list binop :=
  [BOr; BAnd; BEq; BNe; BLt; BGt; BLe; BGe; BIn; BNotIn; BMatches; BStartsWith; BEndsWith;
   BAdd; BSub; BConcat; BMul; BDiv; BMod; BPow].
Fixpoint xp_find_binop (op : bytes) (l : list binop) : option binop :=
  match l with
  | [] => None
  | o :: r => if bytes_eqb (binop_str o) op then Some o else xp_find_binop op r
  end.
Definition xp_binop_of (op : bytes) : option binop := xp_find_binop op all_binops.

Definition unop_str (o : unop) : bytes :=
  match o with UNot => b#"not" | UNeg => b#"-" | UPos => b#"+" end.
Definition xp_unop_of (k : xkind) (v : bytes) : option unop :=
  match k with
  | XName => if bytes_eqb v b#"not" then Some UNot else None
  | XOp => if bytes_eqb v b#"-" then Some UNeg else if bytes_eqb v b#"+" then Some UPos else None
  | _ => None
  end.

(* ---- strconv.Atoi with the error ignored: 0 on a syntax error, clamped on overflow ---- *)
Definition xp_digit_val (c : byte) : option Z :=
  let n := Byte.to_N c in
  if ((48 <=? n) && (n <=? 57))%N then Some (Z.of_N n - 48)%Z else None.
Fixpoint xp_digits_acc (acc : Z) (s : bytes) : option Z :=
  match s with
  | [] => Some acc
  | c :: r => match xp_digit_val c with Some d => xp_digits_acc (acc * 10 + d)%Z r | None => None end
  end.
Definition xp_max_int : Z := 9223372036854775807%Z.
Definition xp_atoi (v : bytes) : Z :=
  let (neg, body) := match v with
                     | c :: r => if Byte.eqb c x2d then (true, r) else if Byte.eqb c x2b then (false, r) else (false, v)
                     | [] => (false, [])
                     end in
  match body with
  | [] => 0%Z
  | _ => match xp_digits_acc 0%Z body with
         | Some z => if neg then (if (xp_max_int + 1 <? z)%Z then (- xp_max_int - 1)%Z else (- z)%Z)
                     else (if (xp_max_int <? z)%Z then xp_max_int else z)
         | None => 0%Z
         end
  end.

(* ---- the comma-separated expression list shared by call, method, filter and test arguments and
   array items: loop (parse expression; continue on a comma) ---- *)
Fixpoint xp_items (pe : list xtok -> xp_res) (n : nat) (ts : list xtok) : outcome (list expr * list xtok) :=
  match n with
  | 0 => OutOfFuel
  | S n' =>
      match pe ts with
      | Ok (e, ts1) =>
          if xp_at_punct b#"," ts1 then
            match xp_items pe n' (tl ts1) with
            | Ok (es, ts2) => Ok (e :: es, ts2)
            | Err x => Err x | OutOfFuel => OutOfFuel | Unmodelled => Unmodelled
            end
          else Ok ([e], ts1)
      | Err x => Err x | OutOfFuel => OutOfFuel | Unmodelled => Unmodelled
      end
  end.

(* after the opening token: the items unless the closer follows at once, then the closer *)
Definition xp_list (pe : list xtok -> xp_res) (n : nat) (close : bytes) (ts : list xtok)
  : outcome (list expr * list xtok) :=
  match (if xp_nonempty ts && negb (xp_at_punct close ts) then xp_items pe n ts else Ok ([], ts)) with
  | Ok (es, ts1) => if xp_at_punct close ts1 then Ok (es, tl ts1) else Err EParse
  | Err x => Err x | OutOfFuel => OutOfFuel | Unmodelled => Unmodelled
  end.

(* ---- parseMapExpression: key : value pairs ---- *)
Fixpoint xp_pairs (pe : list xtok -> xp_res) (n : nat) (ts : list xtok)
  : outcome (list (expr * expr) * list xtok) :=
  match n with
  | 0 => OutOfFuel
  | S n' =>
      match pe ts with
      | Ok (k, ts1) =>
          if xp_at_punct b#":" ts1 then
            match pe (tl ts1) with
            | Ok (v, ts2) =>
                if xp_at_punct b#"," ts2 then
                  match xp_pairs pe n' (tl ts2) with
                  | Ok (kvs, ts3) => Ok ((k, v) :: kvs, ts3)
                  | Err x => Err x | OutOfFuel => OutOfFuel | Unmodelled => Unmodelled
                  end
                else Ok ([(k, v)], ts2)
            | Err x => Err x | OutOfFuel => OutOfFuel | Unmodelled => Unmodelled
            end
          else Err EParse
      | Err x => Err x | OutOfFuel => OutOfFuel | Unmodelled => Unmodelled
      end
  end.

Definition xp_hash (pe : list xtok -> xp_res) (n : nat) (ts : list xtok) : xp_res :=
  match (if xp_nonempty ts && negb (xp_at_punct b#"}" ts) then xp_pairs pe n ts else Ok ([], ts)) with
  | Ok (kvs, ts1) => if xp_at_punct b#"}" ts1 then Ok (EHash kvs, tl ts1) else Err EParse
  | Err x => Err x | OutOfFuel => OutOfFuel | Unmodelled => Unmodelled
  end.

(* ---- the attribute loop after a variable name: .name or .name(args) ---- *)
Fixpoint xp_chain (pe : list xtok -> xp_res) (n : nat) (base : expr) (ts : list xtok) : xp_res :=
  match n with
  | 0 => OutOfFuel
  | S n' =>
      if xp_at_punct b#"." ts then
        match tl ts with
        | XT XName a :: ts1 =>
            if xp_at_punct b#"(" ts1 then
              match xp_list pe n' b#")" (tl ts1) with
              | Ok (args, ts2) => xp_chain pe n' (EModCall base a args) ts2
              | Err x => Err x | OutOfFuel => OutOfFuel | Unmodelled => Unmodelled
              end
            else xp_chain pe n' (EAttr base a) ts1
        | _ => Err EParse
        end
      else Ok (base, ts)
  end.

(* ---- parseFilters: every consecutive |name or |name(args) ---- *)
Fixpoint xp_filters (pe : list xtok -> xp_res) (n : nat) (node : expr) (ts : list xtok) : xp_res :=
  match n with
  | 0 => OutOfFuel
  | S n' =>
      if xp_at_punct b#"|" ts then
        match tl ts with
        | XT XName fname :: ts1 =>
            if xp_at_punct b#"(" ts1 then
              match xp_list pe n' b#")" (tl ts1) with
              | Ok (args, ts2) => xp_filters pe n' (EFilter node fname args) ts2
              | Err x => Err x | OutOfFuel => OutOfFuel | Unmodelled => Unmodelled
              end
            else xp_filters pe n' (EFilter node fname []) ts1
        | _ => Err EParse
        end
      else Ok (node, ts)
  end.

(* ---- parseTest: the test name is the current token (the caller checked that it is a NAME) ---- *)
Definition xp_test (pe : list xtok -> xp_res) (n : nat) (left : expr) (neg : bool) (ts : list xtok) : xp_res :=
  match ts with
  | XT _ tname :: ts1 =>
      if xp_at_punct b#"(" ts1 then
        match xp_list pe n b#")" (tl ts1) with
        | Ok (args, ts2) => Ok (ETest left tname args neg, ts2)
        | Err x => Err x | OutOfFuel => OutOfFuel | Unmodelled => Unmodelled
        end
      else Ok (ETest left tname [] neg, ts1)
  | [] => Err EParse
  end.

Definition xp_has_dot (v : bytes) : bool := existsb (Byte.eqb XDOT) v.

Fixpoint xp_expr (fuel : nat) (ts : list xtok) : xp_res :=
  match fuel with
  | 0 => OutOfFuel
  | S f =>
      match xp_level f prec_start ts with
      | Ok (c, ts1) =>
          if xp_at_punct b#"?" ts1 then
            match xp_expr f (tl ts1) with
            | Ok (t, ts2) =>
                if xp_at_punct b#":" ts2 then
                  match xp_expr f (tl ts2) with
                  | Ok (e, ts3) => Ok (ECond c t e, ts3)
                  | Err x => Err x | OutOfFuel => OutOfFuel | Unmodelled => Unmodelled
                  end
                else Err EParse
            | Err x => Err x | OutOfFuel => OutOfFuel | Unmodelled => Unmodelled
            end
          else Ok (c, ts1)
      | Err x => Err x | OutOfFuel => OutOfFuel | Unmodelled => Unmodelled
      end
  end
with xp_level (fuel : nat) (minp : nat) (ts : list xtok) : xp_res :=
  match fuel with
  | 0 => OutOfFuel
  | S f =>
      match xp_operand f ts with
      | Ok (l, ts1) => xp_loop f minp l ts1
      | Err x => Err x | OutOfFuel => OutOfFuel | Unmodelled => Unmodelled
      end
  end
with xp_loop (fuel : nat) (minp : nat) (left : expr) (ts : list xtok) : xp_res :=
  match fuel with
  | 0 => OutOfFuel
  | S f =>
      match xp_peek ts with
      | None => Ok (left, ts)
      | Some (op, w) =>
          if bytes_eqb op b#"not defined" then
            if prec_compare <? minp then Ok (left, ts)
            else xp_loop f minp (ETest left b#"defined" [] true) (skipn w ts)
          else if (bytes_eqb op b#"is" || bytes_eqb op b#"is not") && xp_name_at (skipn w ts) then
            if prec_compare <? minp then Ok (left, ts)
            else match xp_test (xp_expr f) f left (bytes_eqb op b#"is not") (skipn w ts) with
                 | Ok (l', ts') => xp_loop f minp l' ts'
                 | Err x => Err x | OutOfFuel => OutOfFuel | Unmodelled => Unmodelled
                 end
          else
            let p := xp_get_prec op in
            if p <? minp then Ok (left, ts)
            else match xp_level f (p + prec_right_incr) (skipn w ts) with
                 | Ok (r, ts2) =>
                     match xp_binop_of op with
                     | Some o => xp_loop f minp (EBin o left r) ts2
                     | None => Unmodelled
                     end
                 | Err x => Err x | OutOfFuel => OutOfFuel | Unmodelled => Unmodelled
                 end
      end
  end
with xp_operand (fuel : nat) (ts : list xtok) : xp_res :=
  match fuel with
  | 0 => OutOfFuel
  | S f =>
      match xp_simple f ts with
      | Ok (e, ts1) => xp_postfix f e ts1
      | Err x => Err x | OutOfFuel => OutOfFuel | Unmodelled => Unmodelled
      end
  end
with xp_postfix (fuel : nat) (e : expr) (ts : list xtok) : xp_res :=
  match fuel with
  | 0 => OutOfFuel
  | S f =>
      if xp_at_punct b#"[" ts then
        match xp_expr f (tl ts) with
        | Ok (i, ts1) => if xp_at_punct b#"]" ts1 then xp_postfix f (EItem e i) (tl ts1) else Err EParse
        | Err x => Err x | OutOfFuel => OutOfFuel | Unmodelled => Unmodelled
        end
      else if xp_at_punct b#"|" ts then
        match xp_filters (xp_expr f) f e ts with
        | Ok (e', ts1) => xp_postfix f e' ts1
        | Err x => Err x | OutOfFuel => OutOfFuel | Unmodelled => Unmodelled
        end
      else if xp_at_punct b#"." ts then
        (* attribute access or method call on the result of an index, a call, a filter or a parenthesis *)
        match tl ts with
        | XT XName a :: ts1 =>
            if xp_at_punct b#"(" ts1 then
              match xp_list (xp_expr f) f b#")" (tl ts1) with
              | Ok (args, ts2) => xp_postfix f (EModCall e a args) ts2
              | Err x => Err x | OutOfFuel => OutOfFuel | Unmodelled => Unmodelled
              end
            else xp_postfix f (EAttr e a) ts1
        | _ => Err EParse
        end
      else Ok (e, ts)
  end
with xp_simple (fuel : nat) (ts : list xtok) : xp_res :=
  match fuel with
  | 0 => OutOfFuel
  | S f =>
      match ts with
      | [] => Err EParse
      | XT k v :: r =>
          match xp_unop_of k v with
          | Some o =>
              match xp_simple f r with
              | Ok (e, ts1) => Ok (EUn o e, ts1)
              | Err x => Err x | OutOfFuel => OutOfFuel | Unmodelled => Unmodelled
              end
          | None =>
              match k with
              | XString => Ok (ELit (LStr (xl_unescape v)), r)
              | XNumber => if xp_has_dot v then Unmodelled else Ok (ELit (LInt (xp_atoi v)), r)
              | XName =>
                  if bytes_eqb v b#"true" then Ok (ELit (LBool true), r)
                  else if bytes_eqb v b#"false" then Ok (ELit (LBool false), r)
                  else if bytes_eqb v b#"null" || bytes_eqb v b#"nil" then Ok (ELit LNull, r)
                  else if xp_at_punct b#"(" r then
                    match xp_list (xp_expr f) f b#")" (tl r) with
                    | Ok (args, ts1) => Ok (ECall v args, ts1)
                    | Err x => Err x | OutOfFuel => OutOfFuel | Unmodelled => Unmodelled
                    end
                  else xp_chain (xp_expr f) f (EVar v) r
              | XPunct =>
                  if bytes_eqb v b#"[" then
                    match xp_list (xp_expr f) f b#"]" r with
                    | Ok (es, ts1) => Ok (EArr es, ts1)
                    | Err x => Err x | OutOfFuel => OutOfFuel | Unmodelled => Unmodelled
                    end
                  else if bytes_eqb v b#"{" then xp_hash (xp_expr f) f r
                  else if bytes_eqb v b#"(" then
                    match xp_expr f r with
                    | Ok (e, ts1) => if xp_at_punct b#")" ts1 then Ok (e, tl ts1) else Err EParse
                    | Err x => Err x | OutOfFuel => OutOfFuel | Unmodelled => Unmodelled
                    end
                  else Err EParse
              | XOp => Err EParse
              end
          end
      end
  end.

(* fuel that always suffices (Proofs/ParserProofs.v, xp_fuel_sufficient) *)
Definition xp_fuel (ts : list xtok) : nat := 6 * length ts + 6.

(* an expression followed by the end of the tag: every token must be consumed *)
Definition xp_parse (ts : list xtok) : outcome expr :=
  match xp_expr (xp_fuel ts) ts with
  | Ok (e, []) => Ok e
  | Ok (_, _ :: _) => Err EParse
  | Err x => Err x | OutOfFuel => OutOfFuel | Unmodelled => Unmodelled
  end.

(* source text of an expression to tree *)
Definition xp_parse_src (s : bytes) : outcome expr :=
  match xl_lex s with
  | Ok ts => xp_parse ts
  | Err x => Err x | OutOfFuel => OutOfFuel | Unmodelled => Unmodelled
  end.

(* the content of a print tag, with the single-name shortcut of the scanner *)
Definition xp_parse_var_tag (s : bytes) : outcome expr :=
  match xl_lex_var_tag s with
  | Ok ts => xp_parse ts
  | Err x => Err x | OutOfFuel => OutOfFuel | Unmodelled => Unmodelled
  end.
