(* C03: the map-touching fragment of the evaluator, with Go's map iteration order and memory
   addresses made explicit as oracles.  No proofs here (Proofs/DetermProofs.v).

   Oracles
     doracle = list nat -> list nat : the permutation code used by the range event at a given
       path of the evaluation tree. An evaluation uses  pi [0], pi [1], ...  for its own range events and
       hands  dsub (2 + i) pi  to its i-th sub-evaluation, so every dynamic range event has its own
       code and an arbitrary assignment of orders to events is some oracle. apply_perm (Base/SortPerm.v)
       turns any code into a permutation and every permutation has a code.
     daddr = value -> bytes : the text fmt prints for the address of a pointer-like value.

   Maps. A VMap carries an entry list; the order of that list is never read except through
   apply_perm with an oracle code (iteration), through lookup by key, or through length.
   Maps produced by the evaluator (hash literals, merge) are built by inserting the entries in
   the order the Go loop visits them (dt_map_set: overwrite or append) and are then put into the
   canonical entry order (sorted by key code): a Go map has no entry order beyond what an
   iteration shows, and every iteration goes through the oracle.

   Mirrors, as the code is now:
     node.go    renderForLoop (map branch: sortedMapKeys, value variable before key variable, variables stay
                set after the loop; list branch; not iterable or empty -> else), sortedMapKeys + mapKeyString
                + mapKeyTypeName (stable sort of MapKeys() by the string form of the key, ties by the name of
                the key's dynamic type), IfNode, SetNode, PrintNode
     render.go  EvaluateExpression for HashNode (hashKeyOrder: source order; the variant that ranges over the
                Go map n.items is kept behind the flag dt_hash_ranges_go_map, which the translator sets when
                it finds that range again), ArrayNode, VariableNode (missing -> nil), ToString / toString /
                textWithoutAddress (a pointer prints its pointee, nil pointers, funcs and node values print
                nothing; lists and structs go to fmt, which prints nested pointers and funcs as addresses)
     extension.go  filterFirst (sortedMapKeys), filterLast (maps: error), filterKeys (map[string]interface{}:
                range + sort.Strings; other maps: sortedMapKeys), filterMerge (MapKeys of the value, then MapKeys
                of every map argument, each key through mapKeyString into a new map[string]interface{}; unsorted,
                flag dt_merge_filter_unsorted from the translator), functionMerge (map[string]interface{}: range;
                other maps: sortedMapKeys; keys through toString into a map[string]interface{}), filterJoin/join
                (maps fall to toString = fmt), filterLength/length, filterSort (all numbers: by value, stable;
                otherwise by toString), filterReverse
   Left out (Unmodelled): fmt's %v rendering of maps and of nested collections, strings as sequences (UTF-8),
   the loop variable, arithmetic, tests, attribute access on anything but string-keyed maps, key
   conversions in getItem, includes, macros, inheritance. Failures: the evaluator is pure, so the order
   in which the pairs of a hash literal are evaluated is unobservable on success; should the pairs be ranged
   in map order again, Go would report the first failing pair in iteration order, the model the first in
   source order (every error of this fragment has class other). *)
From Coq Require Import List ZArith Bool Decimal DecimalZ.
From Twig Require Import Base.Bytes Base.SortPerm Model.Ast Model.Value Gen.MapRanges.
Import ListNotations.

Definition doracle := list nat -> list nat.
Definition dsub (k : nat) (pi : doracle) : doracle := fun p => pi (k :: p).
Definition daddr := value -> bytes.
Definition denv := list (bytes * value).

(* the translator found the range over HashNode.items (a Go map keyed by node) in EvaluateExpression *)
Definition dt_site_is (f e : bytes) (s : bytes * bytes * bytes * bytes * bool) : bool :=
  match s with (_, fn, ex, _, _) => bytes_eqb fn f && bytes_eqb ex e end.
Definition dt_hash_ranges_go_map : bool :=
  existsb (dt_site_is b#"RenderContext.EvaluateExpression" b#"n.items") maprange_sites.

(* the translator found filterMerge taking the keys of the value or of an argument straight from MapKeys() *)
Definition dt_site_unsorted (f : bytes) (s : bytes * bytes * bytes * bytes * bool) : bool :=
  match s with (_, fn, _, _, sorted) => bytes_eqb fn f && negb sorted end.
Definition dt_merge_filter_unsorted : bool :=
  existsb (dt_site_unsorted b#"CoreExtension.filterMerge") maprange_sites.

(* ---------------------------------------------------------------- outcome plumbing *)
Definition dt_bind {A B} (o : outcome A) (f : A -> outcome B) : outcome B :=
  match o with
  | Ok a => f a
  | Err e => Err e
  | OutOfFuel => OutOfFuel
  | Unmodelled => Unmodelled
  end.

(* ---------------------------------------------------------------- text of scalars *)
Fixpoint dt_uint_bytes (u : Decimal.uint) : bytes :=
  match u with
  | Decimal.Nil => []
  | Decimal.D0 r => x30 :: dt_uint_bytes r
  | Decimal.D1 r => x31 :: dt_uint_bytes r
  | Decimal.D2 r => x32 :: dt_uint_bytes r
  | Decimal.D3 r => x33 :: dt_uint_bytes r
  | Decimal.D4 r => x34 :: dt_uint_bytes r
  | Decimal.D5 r => x35 :: dt_uint_bytes r
  | Decimal.D6 r => x36 :: dt_uint_bytes r
  | Decimal.D7 r => x37 :: dt_uint_bytes r
  | Decimal.D8 r => x38 :: dt_uint_bytes r
  | Decimal.D9 r => x39 :: dt_uint_bytes r
  end.

(* strconv.Itoa *)
Definition dt_itoa (z : Z) : bytes :=
  match Z.to_int z with
  | Decimal.Pos u => dt_uint_bytes u
  | Decimal.Neg u => x2d :: dt_uint_bytes u
  end.

(* mapKeyString / toString of a map key *)
Definition dt_keystr (k : value) : bytes :=
  match k with
  | VStr s => s
  | VInt z => dt_itoa z
  | VBool true => b#"true"
  | VBool false => b#"false"
  | _ => []
  end.

(* Go equality of keys: same dynamic type and same value. The code is injective on ints and strings. *)
Definition dt_key_code (k : value) : bytes :=
  match k with
  | VInt z => x69 :: dt_itoa z
  | VStr s => x73 :: s
  | _ => [x3f]
  end.
Definition dt_key_eqb (a b : value) : bool := bytes_eqb (dt_key_code a) (dt_key_code b).
Definition dt_is_key (k : value) : bool := match k with VInt _ | VStr _ => true | _ => false end.
Definition dt_is_str (k : value) : bool := match k with VStr _ => true | _ => false end.
Definition dt_is_int (k : value) : bool := match k with VInt _ => true | _ => false end.

(* mapKeyTypeName: the name of the dynamic type of a key *)
Definition dt_key_type (k : value) : bytes :=
  match k with
  | VInt _ => b#"int"
  | VStr _ => b#"string"
  | VBool _ => b#"bool"
  | _ => []
  end.

Fixpoint dt_join (sep : bytes) (ss : list bytes) : bytes :=
  match ss with
  | [] => []
  | [s] => s
  | s :: r => s ++ sep ++ dt_join sep r
  end.

(* fmt %v of an element of a list or of a field of a struct: a non-nil pointer and a func are printed as addresses *)
Definition dt_fmt_elem (al : daddr) (v : value) : outcome bytes :=
  match v with
  | VNull => Ok b#"<nil>"
  | VBool true => Ok b#"true"
  | VBool false => Ok b#"false"
  | VInt z => Ok (dt_itoa z)
  | VStr s => Ok s
  | VPtr None => Ok b#"<nil>"
  | VPtr (Some _) => Ok (b#"0x" ++ al v)
  | VOpaque _ => Ok (b#"0x" ++ al v)
  | _ => Unmodelled
  end.

Fixpoint dt_fmt_elems (al : daddr) (vs : list value) : outcome (list bytes) :=
  match vs with
  | [] => Ok []
  | v :: r => dt_bind (dt_fmt_elem al v) (fun s => dt_bind (dt_fmt_elems al r) (fun ss => Ok (s :: ss)))
  end.

(* ToString / toString with textWithoutAddress: a pointer prints what it points to, a nil pointer, a func
   and a node value print nothing; lists and structs are printed by fmt *)
Fixpoint dt_tostring (al : daddr) (v : value) : outcome bytes :=
  match v with
  | VNull => Ok []
  | VBool true => Ok b#"true"
  | VBool false => Ok b#"false"
  | VInt z => Ok (dt_itoa z)
  | VStr s => Ok s
  | VPtr None => Ok []
  | VPtr (Some x) => dt_tostring al x
  | VOpaque _ => Ok []
  | VMacro _ _ => Ok []
  | VList _ xs => dt_bind (dt_fmt_elems al xs) (fun ss => Ok (b#"[" ++ dt_join b#" " ss ++ b#"]"))
  | VStruct _ fs => dt_bind (dt_fmt_elems al (map snd fs)) (fun ss => Ok (b#"{" ++ dt_join b#" " ss ++ b#"}"))
  | _ => Unmodelled
  end.

Fixpoint dt_tostring_list (al : daddr) (vs : list value) : outcome (list bytes) :=
  match vs with
  | [] => Ok []
  | v :: r => dt_bind (dt_tostring al v) (fun s => dt_bind (dt_tostring_list al r) (fun ss => Ok (s :: ss)))
  end.

(* toBool *)
Definition dt_truthy (v : value) : bool :=
  match v with
  | VNull => false
  | VBool b => b
  | VInt z => negb (Z.eqb z 0)
  | VStr s => match s with [] => false | _ => true end
  | VList _ xs => match xs with [] => false | _ => true end
  | VMap _ kvs => match kvs with [] => false | _ => true end
  | _ => true
  end.

(* ---------------------------------------------------------------- environment *)
Definition dt_env_get (env : denv) (x : bytes) : value :=
  match assoc_bytes env x with Some v => v | None => VNull end.

Fixpoint dt_env_set (env : denv) (x : bytes) (v : value) : denv :=
  match env with
  | [] => [(x, v)]
  | (y, w) :: r => if bytes_eqb y x then (x, v) :: r else (y, w) :: dt_env_set r x v
  end.

(* ---------------------------------------------------------------- maps *)
Definition dentries := list (value * value).

(* m[k] = v on the entry list: overwrite the entry of an equal key, else append *)
Fixpoint dt_map_set (k v : value) (m : dentries) : dentries :=
  match m with
  | [] => [(k, v)]
  | (k', v') :: r => if dt_key_eqb k' k then (k, v) :: r else (k', v') :: dt_map_set k v r
  end.

Definition dt_map_fill (es : dentries) (m : dentries) : dentries :=
  fold_left (fun acc kv => dt_map_set (fst kv) (snd kv) acc) es m.

Fixpoint dt_map_get (m : dentries) (k : value) : option value :=
  match m with
  | [] => None
  | (k', v) :: r => if dt_key_eqb k' k then Some v else dt_map_get r k
  end.

(* the canonical entry order of a produced map *)
Definition dt_canon (m : dentries) : dentries := sp_isort bytes_leb (fun kv => dt_key_code (fst kv)) m.

(* a range over the map with oracle code p *)
Definition iter_map (p : list nat) (m : dentries) : dentries := apply_perm p m.

(* sortedMapKeys: MapKeys() in map order, then sort.SliceStable by the key string and, on ties, the type name *)
Definition dt_sort_key (kv : value * value) : bytes * bytes := (dt_keystr (fst kv), dt_key_type (fst kv)).
Definition dt_sorted_entries (p : list nat) (m : dentries) : dentries :=
  sp_isort bytes2_leb dt_sort_key (iter_map p m).

(* for _, key := range m.MapKeys() { acc[key] = m[key] }; the accumulated map is kept in canonical order *)
Definition dt_map_put_all (p : list nat) (m acc : dentries) : dentries :=
  dt_canon (dt_map_fill (iter_map p m) acc).

(* ---------------------------------------------------------------- filters and functions (not recursive) *)
Definition dt_all_keys (f : value -> bool) (m : dentries) : bool := forallb (fun kv => f (fst kv)) m.

Definition dt_first (pi : doracle) (v : value) : outcome value :=
  match v with
  | VNull => Ok VNull
  | VList _ [] => Ok VNull
  | VList _ (x :: _) => Ok x
  | VMap _ m => match dt_sorted_entries (pi [0]) m with
                | [] => Ok VNull
                | (_, x) :: _ => Ok x
                end
  | VStr _ => Unmodelled
  | _ => Err EOther
  end.

Definition dt_last (v : value) : outcome value :=
  match v with
  | VNull => Ok VNull
  | VList _ xs => Ok (last xs VNull)
  | VStr _ => Unmodelled
  | _ => Err EOther
  end.

Definition dt_keys (pi : doracle) (v : value) : outcome value :=
  match v with
  | VNull => Ok VNull
  | VMap MAny m =>
      if dt_all_keys dt_is_str m
      then (* map[string]interface{}: for k := range v, then sort.Strings *)
           Ok (VList LStrings (map VStr (bytes_sort (map (fun kv => dt_keystr (fst kv)) (iter_map (pi [0]) m)))))
      else Ok (VList LAny (map fst (dt_sorted_entries (pi [0]) m)))
  | VMap _ m => Ok (VList LAny (map fst (dt_sorted_entries (pi [0]) m)))
  | VPtr _ => Unmodelled
  | _ => Err EOther
  end.

Definition dt_ascii (s : bytes) : bool := forallb (fun c => N.ltb (Byte.to_N c) 128) s.

Definition dt_length (v : value) : outcome value :=
  match v with
  | VNull => Ok (VInt 0)
  | VStr s => if dt_ascii s then Ok (VInt (Z.of_nat (length s))) else Unmodelled
  | VList _ xs => Ok (VInt (Z.of_nat (length xs)))
  | VMap _ m => Ok (VInt (Z.of_nat (length m)))
  | _ => Err EOther
  end.

Definition dt_join_filter (al : daddr) (v : value) (args : list value) : outcome value :=
  let sep := match args with VStr d :: _ => d | _ => b#" " end in
  match v with
  | VNull => Ok (VStr [])
  | VList _ xs => dt_bind (dt_tostring_list al xs) (fun ss => Ok (VStr (dt_join sep ss)))
  | _ => dt_bind (dt_tostring al v) (fun s => Ok (VStr s))
  end.

Fixpoint dt_nodupb (l : list bytes) : bool :=
  match l with
  | [] => true
  | x :: r => negb (existsb (bytes_eqb x) r) && dt_nodupb r
  end.

Definition dt_is_num (v : value) : bool := match v with VInt _ => true | _ => false end.
Definition dt_num (v : value) : Z := match v with VInt z => z | _ => 0%Z end.

Definition dt_sort (al : daddr) (v : value) : outcome value :=
  match v with
  | VNull => Ok VNull
  | VList LArray _ => Unmodelled
  | VList LAny [] => Ok v
  | VList LStrings xs | VList LAny xs | VList LInts xs =>
      if forallb dt_is_num xs
      then (* allNumbers: sort.SliceStable / sort.Ints by value *)
           Ok (VList LAny (sp_isort Z.leb dt_num xs))
      else
      dt_bind (dt_tostring_list al xs) (fun ss =>
        if dt_nodupb ss
        then Ok (VList LAny (map snd (sp_isort bytes_leb fst (combine ss xs))))
        else Unmodelled)                             (* ties: sort.Slice is not stable *)
  | _ => Err EOther
  end.

Definition dt_reverse (v : value) : outcome value :=
  match v with
  | VNull => Ok VNull
  | VList t xs => Ok (VList t (rev xs))
  | VStr _ => Unmodelled
  | _ => Err EOther
  end.

Fixpoint dt_merge_lists (args : list value) : list value :=
  match args with
  | [] => []
  | VList _ xs :: r => xs ++ dt_merge_lists r
  | _ :: r => dt_merge_lists r
  end.

(* every key goes through mapKeyString / toString into a map[string]interface{} *)
Definition dt_strkeys (m : dentries) : dentries := map (fun kv => (VStr (dt_keystr (fst kv)), snd kv)) m.

(* for _, key := range m.MapKeys() { acc[mapKeyString(key)] = m[key] } *)
Definition dt_map_put_all_str (p : list nat) (m acc : dentries) : dentries :=
  dt_canon (dt_map_fill (dt_strkeys (iter_map p m)) acc).

(* for _, key := range sortedMapKeys(m) { acc[toString(key)] = m[key] } *)
Definition dt_map_put_sorted_str (p : list nat) (m acc : dentries) : dentries :=
  dt_canon (dt_map_fill (dt_strkeys (dt_sorted_entries p m)) acc).

(* filterMerge on a map: the value, then every map among the arguments; unsorted = keys as MapKeys() yields them *)
Fixpoint dt_merge_maps (unsorted : bool) (pi : doracle) (i : nat) (args : list value) (acc : dentries) : dentries :=
  match args with
  | [] => acc
  | VMap _ m :: r =>
      dt_merge_maps unsorted pi (S i) r
        (if unsorted then dt_map_put_all_str (pi [i]) m acc else dt_map_put_sorted_str (pi [i]) m acc)
  | _ :: r => dt_merge_maps unsorted pi (S i) r acc
  end.

Definition dt_merge_filter (unsorted : bool) (pi : doracle) (v : value) (args : list value) : outcome value :=
  match v with
  | VList _ xs => Ok (VList LAny (xs ++ dt_merge_lists args))
  | VMap _ _ => Ok (VMap MAny (dt_merge_maps unsorted pi 0 (v :: args) []))
  | _ => Ok v
  end.

(* functionMerge: a map[string]interface{} is ranged directly, any other map through sortedMapKeys *)
Definition dt_is_generic (tag : mtag) (m : dentries) : bool :=
  match tag with MAny => dt_all_keys dt_is_str m | _ => false end.

Fixpoint dt_fmerge_maps (pi : doracle) (i : nat) (args : list value) (acc : dentries) : dentries :=
  match args with
  | [] => acc
  | VMap tag m :: r =>
      dt_fmerge_maps pi (S i) r
        (if dt_is_generic tag m then dt_map_put_all_str (pi [i]) m acc else dt_map_put_sorted_str (pi [i]) m acc)
  | _ :: r => dt_fmerge_maps pi (S i) r acc
  end.

Fixpoint dt_fmerge_lists (args : list value) : list value :=
  match args with
  | [] => []
  | VList _ xs :: r => xs ++ dt_fmerge_lists r
  | x :: r => x :: dt_fmerge_lists r
  end.

Definition dt_merge_function (pi : doracle) (args : list value) : outcome value :=
  match args with
  | [] | [_] => Err EOther
  | VList _ xs :: r => Ok (VList LAny (xs ++ dt_fmerge_lists r))
  | VMap _ _ :: _ => Ok (VMap MAny (dt_fmerge_maps pi 0 args []))
  | _ => Err EOther
  end.

Definition dt_filter (unsorted : bool) (pi : doracle) (al : daddr) (name : bytes) (v : value) (args : list value) : outcome value :=
  if bytes_eqb name b#"first" then dt_first pi v
  else if bytes_eqb name b#"last" then dt_last v
  else if bytes_eqb name b#"keys" then dt_keys pi v
  else if bytes_eqb name b#"length" then dt_length v
  else if bytes_eqb name b#"join" then dt_join_filter al v args
  else if bytes_eqb name b#"sort" then dt_sort al v
  else if bytes_eqb name b#"reverse" then dt_reverse v
  else if bytes_eqb name b#"merge" then dt_merge_filter unsorted pi v args
  else Unmodelled.

Definition dt_function (pi : doracle) (name : bytes) (args : list value) : outcome value :=
  if bytes_eqb name b#"merge" then dt_merge_function pi args
  else if bytes_eqb name b#"length" then
    match args with
    | [v] => match dt_length v with Ok n => Ok n | Err _ => Ok (VInt 0) | o => o end
    | _ => Err EOther
    end
  else Unmodelled.

(* m[k] and m.k *)
Definition dt_item (c i : value) : outcome value :=
  match c with
  | VNull => Ok VNull
  | VList _ xs =>
      match i with
      | VInt z => if (Z.ltb z 0 || Z.leb (Z.of_nat (length xs)) z)%bool then Err EOther
                  else Ok (nth (Z.to_nat z) xs VNull)
      | _ => Unmodelled
      end
  | VMap _ m =>
      match i with
      | VStr _ => if dt_all_keys dt_is_str m then Ok (match dt_map_get m i with Some v => v | None => VNull end) else Unmodelled
      | VInt _ => if dt_all_keys dt_is_int m then Ok (match dt_map_get m i with Some v => v | None => VNull end) else Unmodelled
      | _ => Unmodelled
      end
  | _ => Unmodelled
  end.

Definition dt_attr (c : value) (a : bytes) : outcome value :=
  match c with
  | VNull => Ok VNull
  | VMap MAny m => if dt_all_keys dt_is_str m then Ok (match dt_map_get m (VStr a) with Some v => v | None => VNull end) else Unmodelled
  | _ => Unmodelled
  end.

Definition dt_lit (l : lit) : value :=
  match l with LNull => VNull | LBool b => VBool b | LInt z => VInt z | LStr s => VStr s end.

(* ---------------------------------------------------------------- expressions *)
Fixpoint dt_eval_list (ev : doracle -> expr -> outcome value) (pi : doracle) (i : nat) (es : list expr) : outcome (list value) :=
  match es with
  | [] => Ok []
  | e :: r => dt_bind (ev (dsub i pi) e) (fun v => dt_bind (dt_eval_list ev pi (S i) r) (fun vs => Ok (v :: vs)))
  end.

(* the pairs of a hash literal, each key through ToString *)
Fixpoint dt_eval_pairs (ev : doracle -> expr -> outcome value) (al : daddr) (pi : doracle) (i : nat) (kvs : list (expr * expr)) : outcome dentries :=
  match kvs with
  | [] => Ok []
  | (k, v) :: r =>
      dt_bind (ev (dsub i pi) k) (fun kv =>
      dt_bind (dt_tostring al kv) (fun ks =>
      dt_bind (ev (dsub (S i) pi) v) (fun vv =>
      dt_bind (dt_eval_pairs ev al pi (S (S i)) r) (fun rest => Ok ((VStr ks, vv) :: rest)))))
  end.

(* hash literal: result[key] = val for every pair, in the order of the range over n.items *)
Definition dt_hash_build (go_map : bool) (p : list nat) (pairs : dentries) : value :=
  VMap MAny (dt_canon (dt_map_fill (if go_map then iter_map p pairs else pairs) [])).

Fixpoint dt_eval (go_map mu : bool) (fu : nat) (pi : doracle) (al : daddr) (env : denv) (e : expr) : outcome value :=
  match fu with
  | O => OutOfFuel
  | S fu' =>
      let ev := fun p x => dt_eval go_map mu fu' p al env x in
      match e with
      | ELit l => Ok (dt_lit l)
      | EVar x => Ok (dt_env_get env x)
      | EArr es => dt_bind (dt_eval_list ev pi 2 es) (fun vs => Ok (VList LAny vs))
      | EHash kvs => dt_bind (dt_eval_pairs ev al pi 2 kvs) (fun pairs => Ok (dt_hash_build go_map (pi [0]) pairs))
      | EItem c i => dt_bind (ev (dsub 2 pi) c) (fun cv => dt_bind (ev (dsub 3 pi) i) (fun iv => dt_item cv iv))
      | EAttr c a => dt_bind (ev (dsub 2 pi) c) (fun cv => dt_attr cv a)
      | EFilter x f args =>
          (* the arguments are evaluated before the filtered expression (DetectFilterChain) *)
          dt_bind (dt_eval_list ev pi 3 args) (fun avs =>
          dt_bind (ev (dsub 2 pi) x) (fun xv => dt_filter mu pi al f xv avs))
      | ECall f args => dt_bind (dt_eval_list ev pi 2 args) (fun avs => dt_function pi f avs)
      | _ => Unmodelled
      end
  end.

(* ---------------------------------------------------------------- nodes *)
Definition dres := (bytes * denv)%type.

Fixpoint dt_render_nodes (rn : doracle -> denv -> node -> outcome dres) (pi : doracle) (i : nat) (env : denv) (ns : list node) : outcome dres :=
  match ns with
  | [] => Ok ([], env)
  | n :: r =>
      dt_bind (rn (dsub i pi) env n) (fun r1 =>
      dt_bind (dt_render_nodes rn pi (S i) (snd r1) r) (fun r2 => Ok (fst r1 ++ fst r2, snd r2)))
  end.

(* the iterations of a for loop over (key, value) items; the variables stay set afterwards *)
Fixpoint dt_loop (body : doracle -> denv -> outcome dres) (pi : doracle) (j : nat) (kvar : option bytes) (vvar : bytes)
                 (env : denv) (items : dentries) : outcome dres :=
  match items with
  | [] => Ok ([], env)
  | (k, v) :: r =>
      let env1 := dt_env_set env vvar v in
      let env2 := match kvar with Some kx => dt_env_set env1 kx k | None => env1 end in
      dt_bind (body (dsub j pi) env2) (fun r1 =>
      dt_bind (dt_loop body pi (S j) kvar vvar (snd r1) r) (fun r2 => Ok (fst r1 ++ fst r2, snd r2)))
  end.

Fixpoint dt_index_from (i : nat) (xs : list value) : dentries :=
  match xs with
  | [] => []
  | x :: r => (VInt (Z.of_nat i), x) :: dt_index_from (S i) r
  end.

(* the items a for loop visits: None = not iterable *)
Definition dt_for_items (pi : doracle) (seq : value) : outcome (option dentries) :=
  match seq with
  | VList _ xs => Ok (Some (dt_index_from 0 xs))
  | VMap _ m => Ok (Some (dt_sorted_entries (pi [0]) m))
  | VStr _ => Unmodelled
  | _ => Ok None
  end.

Fixpoint dt_if (ev : doracle -> expr -> outcome value) (rns : doracle -> denv -> list node -> outcome dres)
               (pi : doracle) (i : nat) (env : denv) (branches : list (expr * list node)) (els : option (list node)) : outcome dres :=
  match branches with
  | [] => match els with Some ns => rns (dsub 1 pi) env ns | None => Ok ([], env) end
  | (c, body) :: r =>
      dt_bind (ev (dsub i pi) c) (fun cv =>
        if dt_truthy cv then rns (dsub (S i) pi) env body else dt_if ev rns pi (S (S i)) env r els)
  end.

Fixpoint dt_render_node (go_map mu : bool) (fu : nat) (pi : doracle) (al : daddr) (env : denv) (n : node) : outcome dres :=
  match fu with
  | O => OutOfFuel
  | S fu' =>
      let ev := fun p x => dt_eval go_map mu fu' p al env x in
      let rns := fun p en ns => dt_render_nodes (fun q e2 m => dt_render_node go_map mu fu' q al e2 m) p 0 en ns in
      match n with
      | NText s => Ok (s, env)
      | NPrint e => dt_bind (ev (dsub 2 pi) e) (fun v => dt_bind (dt_tostring al v) (fun s => Ok (s, env)))
      | NSet x e => dt_bind (ev (dsub 2 pi) e) (fun v => Ok ([], dt_env_set env x v))
      | NIf branches els => dt_if ev rns pi 2 env branches els
      | NFor k v seq body els =>
          dt_bind (ev (dsub 2 pi) seq) (fun sv =>
          dt_bind (dt_for_items pi sv) (fun items =>
            let no_items := match els with Some ns => rns (dsub 3 pi) env ns | None => Ok ([], env) end in
            match items with
            | Some its => match its with
                          | [] => no_items
                          | _ :: _ => dt_loop (fun p en => rns p en body) pi 4 k v env its
                          end
            | None => no_items
            end))
      | _ => Unmodelled
      end
  end.

Definition dt_render (go_map mu : bool) (fu : nat) (pi : doracle) (al : daddr) (env : denv) (ns : list node) : outcome dres :=
  dt_render_nodes (fun q e m => dt_render_node go_map mu fu q al e m) pi 0 env ns.

(* ---------------------------------------------------------------- building the context *)
(* A context description lists the entries of every map in insertion order. Building the Go value
   inserts them one after the other into an empty map (a later entry of an equal key overwrites). *)
Fixpoint dt_load (v : value) : value :=
  match v with
  | VList t xs => VList t (map dt_load xs)
  | VMap t m => VMap t (dt_canon (dt_map_fill (map (fun kv => (fst kv, dt_load (snd kv))) m) []))
  | VStruct ty fs => VStruct ty (map (fun f => (fst f, dt_load (snd f))) fs)
  | VPtr (Some x) => VPtr (Some (dt_load x))
  | _ => v
  end.

(* the context itself is a map[string]interface{}: canonical order by name *)
Definition dt_load_env (ctx : denv) : denv :=
  sp_isort bytes_leb fst (map (fun f => (fst f, dt_load (snd f))) ctx).

Definition dt_render_ctx (go_map mu : bool) (fu : nat) (pi : doracle) (al : daddr) (ctx : denv) (ns : list node) : outcome bytes :=
  dt_bind (dt_render go_map mu fu pi al (dt_load_env ctx) ns) (fun r => Ok (fst r)).

(* the engine as it is now *)
Definition dt_render_now := dt_render_ctx dt_hash_ranges_go_map dt_merge_filter_unsorted.

(* an oracle given by a table of codes, for the case generator: path -> code, identity elsewhere *)
Fixpoint dt_path_eqb (a b : list nat) : bool :=
  match a, b with
  | [], [] => true
  | x :: a', y :: b' => Nat.eqb x y && dt_path_eqb a' b'
  | _, _ => false
  end.
Definition dt_const_oracle (code : list nat) : doracle := fun _ => code.
