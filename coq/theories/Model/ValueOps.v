(* Value-level helpers of the evaluator model: render.go toBool / toNumber / equals / contains / ToString /
   getItem / getAttribute and extension.go toString / toInt / isEmptyValue / length / isIterable,
   over the value universe of Model/Value.v. No proofs here.

   NUMBERS. twig computes in float64; the model covers integers of magnitude <= 2^53 (vo_bound) and
   returns Unmodelled (here: None / NumUnk) outside. Go distinguishes an int (context values, integer
   literals, loop counters, results of length / range) from a float64 holding an integer (every
   arithmetic result, abs, unary minus): toBool used to compare the interface value with the untyped
   constant 0, an int, so that a float64 zero was truthy (repaired by 0f4c704; the model follows the
   translator's flag evs_tobool_float_by_value); fmt prints a float64 inside a list with an exponent from
   1e+06 on; same_as compares dynamic types. Arithmetic never yields the negative zero (plusZero, 49d3d3e).
   Model/Value.v has a single VInt, so a float64 with integral value z is ENCODED as the reserved struct
   VFloat z := VStruct 64 [([], VInt z)].
   VInt z is a Go int. Two more reserved struct types encode the two function values PrintNode executes:
   VCallable (the closure a macro call evaluates to) and VParentCall (what parent() returns). *)
From Twig Require Import Base.Bytes Base.Utf8 Model.Ast Model.Value.
From Coq Require Import NArith.
From Twig Require Import Gen.EvalShape.

(* ---------------------------------------------------------------- reserved encodings *)
Definition vo_float_ty : nat := 64.
Definition vo_call_ty : nat := 65.
Definition vo_parent_ty : nat := 66.

Definition VFloat (z : Z) : value := VStruct vo_float_ty [([], VInt z)].
(* func(io.Writer) error returned by a macro call: template and name of the macro, evaluated arguments *)
Definition VCallable (tpl name : bytes) (args : list value) : value :=
  VStruct vo_call_ty [(tpl, VStr name); ([], VList LAny args)].
(* the function of the render context that parent() returns *)
Definition VParentCall : value := VStruct vo_parent_ty [].

Inductive vo_kind :=
| KNull | KBool (b : bool) | KInt (z : Z) | KFloat (z : Z) | KStr (s : bytes)
| KList (tag : ltag) (xs : list value) | KMap (tag : mtag) (kvs : list (value * value))
| KCallable (tpl name : bytes) (args : list value) | KParent
| KStructV (ty : nat) (fields : list (bytes * value)) | KPtr (p : option value)
| KMacro (tpl name : bytes) | KOther.

Definition vo_view (v : value) : vo_kind :=
  match v with
  | VNull => KNull
  | VBool b => KBool b
  | VInt z => KInt z
  | VStr s => KStr s
  | VList t xs => KList t xs
  | VMap t kvs => KMap t kvs
  | VStruct ty fs =>
    if Nat.eqb ty vo_float_ty then
      match fs with [(_, VInt z)] => KFloat z | _ => KOther end
    else if Nat.eqb ty vo_call_ty then
      match fs with [(tpl, VStr name); (_, VList _ args)] => KCallable tpl name args | _ => KOther end
    else if Nat.eqb ty vo_parent_ty then KParent
    else KStructV ty fs
  | VPtr p => KPtr p
  | VMacro t n => KMacro t n
  | VModule _ => KOther
  | VOpaque _ => KOther
  end.

(* ---------------------------------------------------------------- integers and decimal text *)
Definition vo_bound : Z := 9007199254740992%Z.      (* 2^53 *)
Definition vo_in_range (z : Z) : bool := ((- vo_bound <=? z) && (z <=? vo_bound))%Z.

Definition vo_digit (n : N) : byte :=
  match Byte.of_N (48 + n) with Some b => b | None => x30 end.
Fixpoint vo_dec_fuel (f : nat) (n : N) (acc : bytes) : bytes :=
  match f with
  | O => acc
  | S f' =>
    let acc' := vo_digit (n mod 10) :: acc in
    if (n <? 10)%N then acc' else vo_dec_fuel f' (n / 10) acc'
  end.
Definition vo_dec (n : N) : bytes := vo_dec_fuel (S (N.to_nat (N.log2 n))) n [].
(* strconv.Itoa, and strconv.FormatFloat(v, 'f', -1, 64) on an integral v *)
Definition vo_itoa (z : Z) : bytes :=
  if (z <? 0)%Z then x2d :: vo_dec (Z.to_N (- z)) else vo_dec (Z.to_N z).

Definition vo_digit_val (b : byte) : option N :=
  let n := u8_n b in if ((48 <=? n) && (n <=? 57))%N then Some (n - 48)%N else None.
Fixpoint vo_parse_digits (s : bytes) (acc : N) : option N :=
  match s with
  | [] => Some acc
  | b :: r => match vo_digit_val b with Some d => vo_parse_digits r (acc * 10 + d)%N | None => None end
  end.
Definition vo_is_sign (b : byte) : bool := Byte.eqb b x2d || Byte.eqb b x2b.
(* strconv.Atoi on the decimal forms: optional sign, at least one digit, nothing else *)
Definition vo_atoi (s : bytes) : option Z :=
  match s with
  | [] => None
  | b :: r =>
    if vo_is_sign b then
      match r with
      | [] => None
      | _ :: _ => match vo_parse_digits r 0 with
                  | Some n => Some (if Byte.eqb b x2d then (- Z.of_N n)%Z else Z.of_N n)
                  | None => None
                  end
      end
    else match vo_parse_digits s 0 with Some n => Some (Z.of_N n) | None => None end
  end.

Definition vo_lower_byte (b : byte) : byte :=
  let n := u8_n b in
  if ((65 <=? n) && (n <=? 90))%N then match Byte.of_N (n + 32) with Some c => c | None => b end else b.
Definition vo_upper_byte (b : byte) : byte :=
  let n := u8_n b in
  if ((97 <=? n) && (n <=? 122))%N then match Byte.of_N (n - 32) with Some c => c | None => b end else b.
Definition vo_is_ascii (s : bytes) : bool := forallb (fun b => (u8_n b <? 128)%N) s.

(* toNumber's view of a value: an integer of the fragment, not a number, or a number outside the fragment *)
Inductive vo_num := NumI (z : Z) | NumNo | NumUnk.
Definition vo_num_of (z : Z) : vo_num := if vo_in_range z then NumI z else NumUnk.

(* strconv.ParseFloat(s, 64) restricted to the fragment: [+-]digits is an integer; anything else that
   begins like a number (digit or dot after the sign) or spells inf / infinity / nan is NumUnk; the rest
   is not a number *)
Definition vo_str_number (s : bytes) : vo_num :=
  match vo_atoi s with
  | Some z => vo_num_of z
  | None =>
    let body := match s with b :: r => if vo_is_sign b then r else s | [] => [] end in
    match body with
    | [] => NumNo
    | c :: _ =>
      if (match vo_digit_val c with Some _ => true | None => false end) || Byte.eqb c x2e then NumUnk
      else
        let l := map vo_lower_byte body in
        if bytes_eqb l b#"inf" || bytes_eqb l b#"infinity" || bytes_eqb l b#"nan" then NumUnk else NumNo
    end
  end.

Definition vo_to_number (v : value) : vo_num :=
  match vo_view v with
  | KBool b => NumI (if b then 1 else 0)%Z
  | KInt z => vo_num_of z
  | KFloat z => vo_num_of z
  | KStr s => vo_str_number s
  | _ => NumNo
  end.

(* ---------------------------------------------------------------- toBool (render.go and extension.go agree) *)
(* case float32, float64: return v != 0  compares an interface holding a float64 with the int constant 0:
   always true. The translator records whether the numeric cases are still grouped like that
   (Gen/EvalShape.v evs_tobool_float_by_value = false) or have been given one type per case. *)
Definition vo_to_bool (v : value) : bool :=
  match vo_view v with
  | KNull => false
  | KBool b => b
  | KInt z => negb (z =? 0)%Z
  | KFloat z => if evs_tobool_float_by_value then negb (z =? 0)%Z else true
  | KStr s => match s with [] => false | _ => true end
  | KList _ xs => match xs with [] => false | _ => true end
  | KMap _ kvs => match kvs with [] => false | _ => true end
  | _ => true
  end.

(* ---------------------------------------------------------------- ordering of keys, sorting *)
Fixpoint vo_bytes_ltb (a b : bytes) : bool :=
  match a, b with
  | [], [] => false
  | [], _ :: _ => true
  | _ :: _, [] => false
  | x :: a', y :: b' =>
    if (u8_n x <? u8_n y)%N then true
    else if (u8_n y <? u8_n x)%N then false
    else vo_bytes_ltb a' b'
  end.

(* stable insertion sort of (key, payload) pairs by key: sort.SliceStable with less = key(i) < key(j) *)
Fixpoint vo_insert {A} (lt : A -> A -> bool) (x : A) (l : list A) : list A :=
  match l with
  | [] => [x]
  | y :: r => if lt y x then y :: vo_insert lt x r else x :: y :: r
  end.
Definition vo_sort {A} (lt : A -> A -> bool) (l : list A) : list A := fold_right (vo_insert lt) [] l.

(* ---------------------------------------------------------------- ToString / toString *)
Fixpoint vo_join (sep : bytes) (l : list bytes) : bytes :=
  match l with
  | [] => []
  | x :: r => match r with [] => x | _ :: _ => x ++ sep ++ vo_join sep r end
  end.

Fixpoint vo_opt_list {A} (l : list (option A)) : option (list A) :=
  match l with
  | [] => Some []
  | None :: _ => None
  | Some x :: r => match vo_opt_list r with Some r' => Some (x :: r') | None => None end
  end.

Definition vo_million : Z := 1000000%Z.

(* fmt %v of a value standing inside a list or a map. None = not modelled (structs, pointers, functions,
   a float64 of magnitude >= 1e6 which fmt prints with an exponent). Map entries are printed in fmt's key
   order: strings bytewise, ints numerically. *)
Fixpoint vo_fmt (v : value) : option bytes :=
  match v with
  | VNull => Some b#"<nil>"
  | VBool b => Some (if b then b#"true" else b#"false")
  | VInt z => Some (vo_itoa z)
  | VStr s => Some s
  | VList _ xs =>
    let fix go (l : list value) : list (option bytes) :=
      match l with [] => [] | x :: r => vo_fmt x :: go r end in
    match vo_opt_list (go xs) with
    | Some parts => Some (x5b :: vo_join [x20] parts ++ [x5d])
    | None => None
    end
  | VMap _ kvs =>
    let fix go (l : list (value * value)) : list (option (value * bytes)) :=
      match l with
      | [] => []
      | (k, x) :: r =>
        (match vo_fmt k, vo_fmt x with
         | Some ks, Some xs => Some (k, ks ++ x3a :: xs)
         | _, _ => None
         end) :: go r
      end in
    match vo_opt_list (go kvs) with
    | Some parts =>
      let lt (a b : value * bytes) : bool :=
        match fst a, fst b with
        | VInt x, VInt y => (x <? y)%Z
        | VStr x, VStr y => vo_bytes_ltb x y
        | _, _ => false
        end in
      Some (b#"map[" ++ vo_join [x20] (map snd (vo_sort lt parts)) ++ [x5d])
    | None => None
    end
  | VStruct ty fs =>
    if Nat.eqb ty vo_float_ty then
      match fs with
      | [(_, VInt z)] => if (Z.abs z <? vo_million)%Z then Some (vo_itoa z) else None
      | _ => None
      end
    else None
  | _ => None
  end.

(* ctx.ToString / toString at top level. A pointer prints what it points to (nothing when nil); funcs (the two
   function encodings, opaque values) and bare macro values print nothing. *)
Definition vo_to_str_flat (v : value) : option bytes :=
  match vo_view v with
  | KNull => Some []
  | KFloat z => Some (vo_itoa z)
  | KList _ _ | KMap _ _ => vo_fmt v
  | KBool _ | KInt _ | KStr _ => vo_fmt v
  | KCallable _ _ _ | KParent | KMacro _ _ => Some []
  | KStructV _ _ | KPtr _ | KOther => match v with VOpaque _ => Some [] | _ => None end
  end.
Fixpoint vo_to_str (v : value) : option bytes :=
  match v with
  | VPtr None => Some []
  | VPtr (Some x) => vo_to_str x
  | _ => vo_to_str_flat v
  end.

(* ---------------------------------------------------------------- equals, contains *)
(* None = Unmodelled *)
Definition vo_equals (a b : value) : option bool :=
  match a, b with
  | VNull, VNull => Some true
  | VNull, _ => Some false
  | _, VNull => Some false
  | _, _ =>
    let by_text := match vo_to_str a, vo_to_str b with
                   | Some x, Some y => Some (bytes_eqb x y)
                   | _, _ => None
                   end in
    match vo_to_number a with
    | NumUnk => None
    | NumNo => by_text
    | NumI x =>
      match vo_to_number b with
      | NumUnk => None
      | NumNo => by_text
      | NumI y => Some (x =? y)%Z
      end
    end
  end.

(* strings.Contains *)
Fixpoint vo_has_sub (p s : bytes) : bool :=
  prefixb p s || match s with [] => false | _ :: r => vo_has_sub p r end.

Fixpoint vo_any_equal (xs : list value) (item : value) : option bool :=
  match xs with
  | [] => Some false
  | x :: r =>
    match vo_equals x item with
    | None => None
    | Some true => Some true
    | Some false => vo_any_equal r item
    end
  end.

Fixpoint vo_map_find (kvs : list (value * value)) (k : value) : option value :=
  match kvs with
  | [] => None
  | (k', x) :: r =>
    let same := match k', k with
                | VStr a, VStr b => bytes_eqb a b
                | VInt a, VInt b => (a =? b)%Z
                | _, _ => false
                end in
    if same then Some x else vo_map_find r k
  end.

(* ctx.contains(container, item): the in operator *)
Definition vo_contains (container item : value) : option bool :=
  match vo_view container with
  | KNull => Some false
  | KStr s => match vo_to_str item with Some t => Some (vo_has_sub t s) | None => None end
  | KList _ xs => if (50 <? length xs)%nat then None else vo_any_equal xs item
  | KMap MAny kvs =>
    match vo_to_str item with
    | Some t => Some (match vo_map_find kvs (VStr t) with Some _ => true | None => false end)
    | None => None
    end
  | KMap _ kvs => vo_any_equal (map fst kvs) item
  | _ => Some false
  end.

(* ---------------------------------------------------------------- getItem, getAttribute *)
(* index as Go's int(idx) with idx, _ := toNumber(index) *)
Definition vo_index_int (index : value) : option Z :=
  match vo_to_number index with
  | NumI z => Some z
  | NumNo => Some 0%Z
  | NumUnk => None
  end.

Definition vo_get_item (container index : value) : outcome value :=
  match vo_view container with
  | KNull => Ok VNull
  | KList _ xs =>
    match vo_index_int index with
    | None => Unmodelled
    | Some i =>
      if ((i <? 0) || (Z.of_nat (length xs) <=? i))%Z then Err EOther
      else Ok (nth (Z.to_nat i) xs VNull)
    end
  | KMap MAny kvs =>
    match vo_index_int index with       (* toNumber(index) is computed before the type switch *)
    | None => Unmodelled
    | Some _ =>
      match vo_to_str index with
      | Some t => Ok (match vo_map_find kvs (VStr t) with Some x => x | None => VNull end)
      | None => Unmodelled
      end
    end
  | KMap tag kvs =>
    match vo_index_int index with
    | None => Unmodelled
    | Some _ =>
      let int_keys := match tag with MIntStr => true | _ => false end in
      match vo_view index with
      | KNull => Ok VNull
      | KStr s => if int_keys then Ok VNull
                  else Ok (match vo_map_find kvs (VStr s) with Some x => x | None => VNull end)
      | KInt z => if int_keys then Ok (match vo_map_find kvs (VInt z) with Some x => x | None => VNull end)
                  else Unmodelled        (* int converts to string as a code point *)
      | KFloat z => if int_keys then Ok (match vo_map_find kvs (VInt z) with Some x => x | None => VNull end)
                    else Ok (match vo_map_find kvs (VStr (vo_itoa z)) with Some x => x | None => VNull end)
      | KBool b => if int_keys then Ok VNull
                   else Ok (match vo_map_find kvs (VStr (if b then b#"true" else b#"false")) with Some x => x | None => VNull end)
      | _ => Unmodelled
      end
    end
  | KStr _ | KBool _ | KInt _ | KFloat _ =>
    match vo_index_int index with None => Unmodelled | Some _ => Ok VNull end
  | _ => Unmodelled
  end.

(* getAttribute(obj, attr): maps by key, structs by field (methods are not modelled), the rest nothing *)
Definition vo_get_attr (obj : value) (attr : bytes) : outcome value :=
  match vo_view obj with
  | KNull => Ok VNull
  | KMap MAny kvs => Ok (match vo_map_find kvs (VStr attr) with Some x => x | None => VNull end)
  | KMap _ _ => vo_get_item obj (VStr attr)
  | KStructV _ fs => match assoc_bytes fs attr with Some x => Ok x | None => Unmodelled end
  | KPtr (Some (VStruct ty fs)) =>
    match vo_view (VStruct ty fs) with
    | KStructV _ fs' => match assoc_bytes fs' attr with Some x => Ok x | None => Unmodelled end
    | _ => Unmodelled
    end
  | KPtr _ => Ok VNull
  | KStr _ | KBool _ | KInt _ | KFloat _ | KList _ _ => Ok VNull
  | KCallable _ _ _ | KParent | KMacro _ _ => Ok VNull
  | KOther => Unmodelled
  end.

(* ---------------------------------------------------------------- extension.go helpers *)
(* isEmptyValue: nil, the empty string, false, an empty list or map; a number is never empty *)
Definition vo_is_empty (v : value) : bool :=
  match vo_view v with
  | KNull => true
  | KStr s => match s with [] => true | _ => false end
  | KBool b => negb b
  | KInt _ => false
  | KFloat _ => false
  | KList _ xs => match xs with [] => true | _ => false end
  | KMap _ kvs => match kvs with [] => true | _ => false end
  | _ => false
  end.

Definition vo_is_iterable (v : value) : bool :=
  match vo_view v with
  | KStr _ | KList _ _ | KMap _ _ => true
  | _ => false
  end.

(* length(v): runes of a string, elements of a list or map, 0 for nil, error otherwise *)
Definition vo_length (v : value) : outcome Z :=
  match vo_view v with
  | KNull => Ok 0%Z
  | KStr s => Ok (Z.of_nat (u8_count s))
  | KList _ xs => Ok (Z.of_nat (length xs))
  | KMap _ kvs => Ok (Z.of_nat (length kvs))
  | KOther => Unmodelled
  | _ => Err EOther
  end.

(* toInt *)
Definition vo_to_int (v : value) : outcome Z :=
  match vo_view v with
  | KInt z | KFloat z => if vo_in_range z then Ok z else Unmodelled
  | KBool b => Ok (if b then 1 else 0)%Z
  | KStr s => match vo_atoi s with
              | Some z => if vo_in_range z then Ok z else Unmodelled
              | None => Err EOther
              end
  | KOther => Unmodelled
  | _ => Err EOther
  end.

(* the keys of a map in the order for loops, first and keys use: sortedMapKeys, by the key's text *)
Definition vo_key_text (k : value) : bytes :=
  match k with VStr s => s | VInt z => vo_itoa z | _ => [] end.
Definition vo_sorted_entries (kvs : list (value * value)) : list (value * value) :=
  vo_sort (fun a b => vo_bytes_ltb (vo_key_text (fst a)) (vo_key_text (fst b))) kvs.

(* m[k] = x on an association list: replace in place or append *)
Fixpoint vo_map_set (kvs : list (value * value)) (k x : value) : list (value * value) :=
  match kvs with
  | [] => [(k, x)]
  | (k', x') :: r =>
    let same := match k', k with
                | VStr a, VStr b => bytes_eqb a b
                | VInt a, VInt b => (a =? b)%Z
                | _, _ => false
                end in
    if same then (k', x) :: r else (k', x') :: vo_map_set r k x
  end.

(* does the value contain (at any depth) one of the two function encodings, or is it one *)
Fixpoint vo_has_callable (v : value) : bool :=
  match v with
  | VList _ xs => (fix go (l : list value) : bool := match l with [] => false | x :: r => vo_has_callable x || go r end) xs
  | VMap _ kvs => (fix go (l : list (value * value)) : bool :=
                     match l with [] => false | (_, x) :: r => vo_has_callable x || go r end) kvs
  | VStruct ty _ => Nat.eqb ty vo_call_ty || Nat.eqb ty vo_parent_ty
  | _ => false
  end.

(* structural equality of values (used to recognise the live loop record, see Eval.v ev_set) *)
Fixpoint vo_value_eqb (a b : value) : bool :=
  match a, b with
  | VNull, VNull => true
  | VBool x, VBool y => Bool.eqb x y
  | VInt x, VInt y => (x =? y)%Z
  | VStr x, VStr y => bytes_eqb x y
  | VList _ xs, VList _ ys =>
    (fix go (l1 l2 : list value) : bool :=
       match l1, l2 with
       | [], [] => true
       | x :: r1, y :: r2 => vo_value_eqb x y && go r1 r2
       | _, _ => false
       end) xs ys
  | VMap _ xs, VMap _ ys =>
    (fix go (l1 l2 : list (value * value)) : bool :=
       match l1, l2 with
       | [], [] => true
       | (k1, x) :: r1, (k2, y) :: r2 => vo_value_eqb k1 k2 && vo_value_eqb x y && go r1 r2
       | _, _ => false
       end) xs ys
  | VStruct t1 f1, VStruct t2 f2 =>
    Nat.eqb t1 t2 &&
    (fix go (l1 l2 : list (bytes * value)) : bool :=
       match l1, l2 with
       | [], [] => true
       | (k1, x) :: r1, (k2, y) :: r2 => bytes_eqb k1 k2 && vo_value_eqb x y && go r1 r2
       | _, _ => false
       end) f1 f2
  | VMacro t1 n1, VMacro t2 n2 => bytes_eqb t1 t2 && bytes_eqb n1 n2
  | _, _ => false
  end.

(* does v contain w as a sub-value (or equal it) *)
Fixpoint vo_contains_value (w v : value) : bool :=
  vo_value_eqb v w ||
  match v with
  | VList _ xs => (fix go (l : list value) : bool := match l with [] => false | x :: r => vo_contains_value w x || go r end) xs
  | VMap _ kvs => (fix go (l : list (value * value)) : bool :=
                     match l with [] => false | (_, x) :: r => vo_contains_value w x || go r end) kvs
  | _ => false
  end.
