(* Token-index model of the block-tag layer of the parser (C05): parser.go parseOuterTemplate,
   parseEndTag, parseSpaceless and the handlers of parse_if.go, parse_for.go, parse_set.go, parse_block.go,
   parse_extends.go, parse_include.go, parse_import.go, parse_from.go, parse_macro.go, parse_do.go,
   parse_apply.go, parse_verbatim.go.

   A token is (kind, value, line); the parser state is the token index.  EVERY access to the token
   slice goes through tok_at.  Where the Go code tests the index first (idx >= len(tokens) || ...,
   idx < len(tokens) && ...) the model matches on tok_at and takes the branch the short-circuit takes;
   where the Go code indexes without a dominating test (tokens[idx-2] at handler entry, tokens[idx-1]
   and tokens[idx] inside error messages built after a failed test) the model returns PPanic PTokIndex
   when the index is out of range (below 0 or at least len).  The two places that slice a token VALUE
   without a length test (parse_import.go and parse_macro.go, legacy combined-token paths) return
   PPanic PStrSlice.

   Abstraction of expressions.  parseExpression is a parameter skip : list token -> nat -> option nat:
   skip toks i = Some j means parseExpression, entered at index i, returns a node and leaves the index
   at j; None means it returns an error.  All that is assumed of it (bp_expr_spec) is what every
   success path of parseExpression has in common: it consumed at least one token and every token it
   consumed has one of the five kinds NAME, NUMBER, STRING, OPERATOR, PUNCTUATION (each consumption in
   parser.go follows a test of the token for one of these kinds).  Any function with that property may
   stand for parseExpression, so the theorems hold for every number of expression tokens the real
   function could read; the expression trees themselves are not represented.  bp_skip_std below is one
   such function, a bracket-balanced scan, used by the correspondence driver.

   Not modelled: token Line values other than the same-line test of parseOuterTemplate, the text of
   error messages, the debug-logging blocks (their token accesses sit inside loops that test the index),
   the contents of the nodes built (only the tree shape is kept). *)
From Twig Require Import Base.Bytes.
From Coq Require Import Arith NArith ZArith.

Inductive tkind :=
| KText | KVarStart | KVarEnd | KBlockStart | KBlockEnd | KCommentStart | KCommentEnd
| KName | KNumber | KString | KOperator | KPunct | KEof
| KVarStartTrim | KVarEndTrim | KBlockStartTrim | KBlockEndTrim.

Definition bp_all_kinds : list tkind :=
  [KText; KVarStart; KVarEnd; KBlockStart; KBlockEnd; KCommentStart; KCommentEnd; KName; KNumber; KString;
   KOperator; KPunct; KEof; KVarStartTrim; KVarEndTrim; KBlockStartTrim; KBlockEndTrim].

Definition tkind_code (k : tkind) : N :=
  match k with
  | KText => 0 | KVarStart => 1 | KVarEnd => 2 | KBlockStart => 3 | KBlockEnd => 4 | KCommentStart => 5
  | KCommentEnd => 6 | KName => 7 | KNumber => 8 | KString => 9 | KOperator => 10 | KPunct => 11 | KEof => 12
  | KVarStartTrim => 13 | KVarEndTrim => 14 | KBlockStartTrim => 15 | KBlockEndTrim => 16
  end%N.

Definition tkind_name (k : tkind) : bytes :=
  match k with
  | KText => b#"TOKEN_TEXT" | KVarStart => b#"TOKEN_VAR_START" | KVarEnd => b#"TOKEN_VAR_END"
  | KBlockStart => b#"TOKEN_BLOCK_START" | KBlockEnd => b#"TOKEN_BLOCK_END"
  | KCommentStart => b#"TOKEN_COMMENT_START" | KCommentEnd => b#"TOKEN_COMMENT_END"
  | KName => b#"TOKEN_NAME" | KNumber => b#"TOKEN_NUMBER" | KString => b#"TOKEN_STRING"
  | KOperator => b#"TOKEN_OPERATOR" | KPunct => b#"TOKEN_PUNCTUATION" | KEof => b#"TOKEN_EOF"
  | KVarStartTrim => b#"TOKEN_VAR_START_TRIM" | KVarEndTrim => b#"TOKEN_VAR_END_TRIM"
  | KBlockStartTrim => b#"TOKEN_BLOCK_START_TRIM" | KBlockEndTrim => b#"TOKEN_BLOCK_END_TRIM"
  end.

Definition tkind_of_code (n : N) : option tkind :=
  List.find (fun k => N.eqb (tkind_code k) n) bp_all_kinds.

Record token := mkTok { t_kind : tkind; t_val : bytes; t_line : nat }.

Definition tok_at (toks : list token) (i : nat) : option token := nth_error toks i.

(* kind tests, one per test the Go code makes *)
Definition k_text k := match k with KText => true | _ => false end.
Definition k_name k := match k with KName => true | _ => false end.
Definition k_string k := match k with KString => true | _ => false end.
Definition k_number k := match k with KNumber => true | _ => false end.
Definition k_op k := match k with KOperator => true | _ => false end.
Definition k_punct k := match k with KPunct => true | _ => false end.
Definition k_eof k := match k with KEof => true | _ => false end.
Definition k_comment_end k := match k with KCommentEnd => true | _ => false end.
Definition k_block_start k := match k with KBlockStart | KBlockStartTrim => true | _ => false end.   (* isBlockStartToken *)
Definition k_block_end k := match k with KBlockEnd | KBlockEndTrim => true | _ => false end.         (* isBlockEndToken *)
Definition k_var_start k := match k with KVarStart | KVarStartTrim => true | _ => false end.
Definition k_var_end k := match k with KVarEnd | KVarEndTrim => true | _ => false end.               (* isVarEndToken *)
Definition k_expr k := match k with KName | KNumber | KString | KOperator | KPunct => true | _ => false end.

Definition t_is (p : tkind -> bool) (v : bytes) (t : token) : bool := p (t_kind t) && bytes_eqb (t_val t) v.
Definition t_punct (v : bytes) (t : token) : bool := t_is k_punct v t.
Definition t_name (v : bytes) (t : token) : bool := t_is k_name v t.
Definition t_op (v : bytes) (t : token) : bool := t_is k_op v t.

(* what is assumed of parseExpression *)
Definition bp_expr_spec (skip : list token -> nat -> option nat) : Prop :=
  forall toks i j, skip toks i = Some j ->
    i < j /\ forall k, i <= k < j -> exists t, tok_at toks k = Some t /\ k_expr (t_kind t) = true.

(* the invariant both tokenizers establish: the last token is EOF *)
Definition bp_ends_in_eof (toks : list token) : Prop :=
  exists t, tok_at toks (length toks - 1) = Some t /\ t_kind t = KEof.
Definition bp_ends_in_eofb (toks : list token) : bool :=
  match tok_at toks (length toks - 1) with Some t => k_eof (t_kind t) | None => false end.

(* ------------------------------------------------------------------ strings (token values) *)
Fixpoint bp_index_of (p s : bytes) : option nat :=           (* strings.Index *)
  if prefixb p s then Some 0
  else match s with
       | [] => None
       | _ :: r => match bp_index_of p r with Some i => Some (S i) | None => None end
       end.
Definition bp_contains (p s : bytes) : bool := match bp_index_of p s with Some _ => true | None => false end.
(* text before and after the first occurrence (strings.SplitN s p 2 when p occurs) *)
Definition bp_cut (p s : bytes) : option (bytes * bytes) :=
  match bp_index_of p s with
  | Some i => Some (firstn i s, skipn (i + length p) s)
  | None => None
  end.
(* strings.Split on a single byte *)
Fixpoint bp_split_byte (c : byte) (s : bytes) : list bytes :=
  match s with
  | [] => [[]]
  | x :: r => if Byte.eqb x c then [] :: bp_split_byte c r
              else match bp_split_byte c r with h :: t => (x :: h) :: t | [] => [[x]] end
  end.

(* unicode.IsSpace, as UTF-8 byte sequences: ASCII tab LF VT FF CR space, U+0085, U+00A0, U+1680,
   U+2000..U+200A, U+2028, U+2029, U+202F, U+205F, U+3000 *)
Definition bp_space_seqs : list bytes :=
  [[x09]; [x0a]; [x0b]; [x0c]; [x0d]; [x20]; [xc2; x85]; [xc2; xa0]; [xe1; x9a; x80];
   [xe2; x80; x80]; [xe2; x80; x81]; [xe2; x80; x82]; [xe2; x80; x83]; [xe2; x80; x84]; [xe2; x80; x85];
   [xe2; x80; x86]; [xe2; x80; x87]; [xe2; x80; x88]; [xe2; x80; x89]; [xe2; x80; x8a];
   [xe2; x80; xa8]; [xe2; x80; xa9]; [xe2; x80; xaf]; [xe2; x81; x9f]; [xe3; x80; x80]].
Definition bp_space_prefix (seqs : list bytes) (s : bytes) : option nat :=
  match List.find (fun q => prefixb q s) seqs with Some q => Some (length q) | None => None end.
Fixpoint bp_trim_left_with (seqs : list bytes) (fuel : nat) (s : bytes) : bytes :=
  match fuel with
  | O => s
  | S f => match s with
           | [] => []
           | _ => match bp_space_prefix seqs s with
                  | Some n => bp_trim_left_with seqs f (skipn n s)
                  | None => s
                  end
           end
  end.
Definition bp_trim_space (s : bytes) : bytes :=                 (* strings.TrimSpace *)
  let l := bp_trim_left_with bp_space_seqs (length s) s in
  rev (bp_trim_left_with (map (@rev byte) bp_space_seqs) (length l) (rev l)).
Definition bp_blank (s : bytes) : bool := match bp_trim_space s with [] => true | _ => false end.
Fixpoint bp_drop_while (c : byte) (s : bytes) : bytes :=
  match s with x :: r => if Byte.eqb x c then bp_drop_while c r else s | [] => [] end.
Definition bp_trim_right_byte (c : byte) (s : bytes) : bytes := rev (bp_drop_while c (rev s)).   (* strings.TrimRight s "c" *)

Definition bp_quote1 (s : bytes) : bool :=        (* a lone quote character: HasPrefix q && HasSuffix q with len 1 *)
  match s with [c] => Byte.eqb c x22 || Byte.eqb c x27 | _ => false end.

(* parse_import.go: the NAME value contains " as "; templatePath = TrimSpace(part before); when it both
   starts and ends with a double quote it is sliced [1:len-1], which panics for the one-byte string *)
Definition bp_import_slice_panics (v : bytes) : bool :=
  match bp_cut b#" as " v with
  | Some (before, _) => match bp_trim_space before with [c] => Byte.eqb c x22 | _ => false end
  | None => false
  end.

(* parse_macro.go: the NAME value contains "("; the text after it, stripped of trailing ")", is split
   at commas; a parameter of the form name = q with q a lone quote character is sliced [1:0] *)
Definition bp_macro_slice_panics (v : bytes) : bool :=
  match bp_cut b#"(" v with
  | Some (_, after) =>
      let plist := bp_trim_right_byte x29 after in
      match plist with
      | [] => false
      | _ => existsb (fun item =>
                        match bp_cut b#"=" (bp_trim_space item) with
                        | Some (_, d) => bp_quote1 (bp_trim_space d)
                        | None => false
                        end) (bp_split_byte x2c plist)
      end
  | None => false
  end.

(* strings.Split(v, " import ") has exactly two parts: one occurrence, none in the remainder *)
Definition bp_one_import (v : bytes) : bool :=
  match bp_cut b#" import " v with
  | Some (_, after) => negb (bp_contains b#" import " after)
  | None => false
  end.

(* strconv.Atoi succeeds: optional sign, at least one digit, only digits, value within int64 *)
Definition bp_digit (c : byte) : option Z :=
  let n := Byte.to_N c in if ((48 <=? n) && (n <=? 57))%N then Some (Z.of_N n - 48)%Z else None.
Fixpoint bp_digits (s : bytes) (acc : Z) : option Z :=
  match s with
  | [] => Some acc
  | c :: r => match bp_digit c with Some d => bp_digits r (acc * 10 + d)%Z | None => None end
  end.
Definition bp_atoi_ok (s : bytes) : bool :=
  let body (neg : bool) (r : bytes) :=
    match r with
    | [] => false
    | _ => match bp_digits r 0%Z with
           | Some z => if neg then (z <=? 9223372036854775808)%Z else (z <=? 9223372036854775807)%Z
           | None => false
           end
    end in
  match s with
  | c :: r => if Byte.eqb c x2d then body true r else if Byte.eqb c x2b then body false r else body false s
  | [] => false
  end.

(* ------------------------------------------------------------------ results and tree shapes *)
Inductive bp_panic := PTokIndex | PStrSlice.
Inductive presult (A : Type) := POk (i : nat) (a : A) | PErr | PPanic (w : bp_panic) | PFuel.
Arguments POk {A} i a.
Arguments PErr {A}.
Arguments PPanic {A} w.
Arguments PFuel {A}.

Inductive bp_tree :=
| BTText | BTPrint | BTSet | BTDo | BTExtends | BTInclude | BTImport | BTFrom | BTVerbatim
| BTIf (bodies : list (list bp_tree)) (els : option (list bp_tree))
| BTFor (body : list bp_tree) (els : option (list bp_tree))
| BTBlock (body : list bp_tree)
| BTMacro (body : list bp_tree)
| BTApply (body : list bp_tree)
| BTSpaceless (body : list bp_tree).

(* keep an outcome that is not POk, at another result type *)
Definition bp_lift {A B} (r : presult A) : presult B :=
  match r with POk _ _ => PErr | PErr => PErr | PPanic w => PPanic w | PFuel => PFuel end.
Definition bp_bind {A B} (r : presult A) (k : nat -> A -> presult B) : presult B :=
  match r with POk j a => k j a | PErr => PErr | PPanic w => PPanic w | PFuel => PFuel end.
Definition bp_cons (n : bp_tree) (r : presult (list bp_tree)) : presult (list bp_tree) :=
  bp_bind r (fun j ns => POk j (n :: ns)).

(* the block handlers (the values of the blockHandlers map) *)
Inductive bp_handler := HIf | HFor | HBlock | HExtends | HInclude | HSet | HDo | HMacro | HImport | HFrom
                      | HSpaceless | HVerbatim | HApply | HEndTag.
Definition bp_handler_name (h : bp_handler) : bytes :=
  match h with
  | HIf => b#"parseIf" | HFor => b#"parseFor" | HBlock => b#"parseBlock" | HExtends => b#"parseExtends"
  | HInclude => b#"parseInclude" | HSet => b#"parseSet" | HDo => b#"parseDo" | HMacro => b#"parseMacro"
  | HImport => b#"parseImport" | HFrom => b#"parseFrom" | HSpaceless => b#"parseSpaceless"
  | HVerbatim => b#"parseVerbatim" | HApply => b#"parseApply" | HEndTag => b#"parseEndTag"
  end.
Definition bp_handler_table : list (bytes * bp_handler) :=
  [(b#"if", HIf); (b#"for", HFor); (b#"block", HBlock); (b#"extends", HExtends); (b#"include", HInclude);
   (b#"set", HSet); (b#"do", HDo); (b#"macro", HMacro); (b#"import", HImport); (b#"from", HFrom);
   (b#"spaceless", HSpaceless); (b#"verbatim", HVerbatim); (b#"apply", HApply);
   (b#"endif", HEndTag); (b#"endfor", HEndTag); (b#"endmacro", HEndTag); (b#"endblock", HEndTag);
   (b#"endspaceless", HEndTag); (b#"endapply", HEndTag); (b#"else", HEndTag); (b#"elseif", HEndTag);
   (b#"endverbatim", HEndTag)].
Definition bp_dispatch (name : bytes) : option bp_handler := assoc_bytes bp_handler_table name.
Definition bp_end_tags : list bytes :=
  [b#"endif"; b#"endfor"; b#"endblock"; b#"endmacro"; b#"else"; b#"elseif"; b#"endspaceless"; b#"endapply"; b#"endverbatim"].
Definition bp_is_end_tag (name : bytes) : bool := existsb (bytes_eqb name) bp_end_tags.

Definition k_comment_start k := match k with KCommentStart => true | _ => false end.

(* ------------------------------------------------------------------ the handlers *)
Section BlockParser.
Variable skip : list token -> nat -> option nat.     (* parseExpression, see the header *)
Variable toks : list token.

(* tokens[idx-k] with no test before it: panics when idx-k is negative or not below len *)
Definition bp_read_back {A} (idx k : nat) (cont : presult A) : presult A :=
  if idx <? k then PPanic PTokIndex
  else match tok_at toks (idx - k) with Some _ => cont | None => PPanic PTokIndex end.
Definition bp_read {A} (idx : nat) (cont : token -> presult A) : presult A :=
  match tok_at toks idx with Some t => cont t | None => PPanic PTokIndex end.
(* return nil, fmt.Errorf(..., tokens[idx-k].Line) *)
Definition bp_err_back {A} (idx k : nat) : presult A := bp_read_back idx k PErr.

(* if idx >= len || !p(tokens[idx].Type) { return error (no token read) }; idx++ *)
Definition bp_expect {A} (p : tkind -> bool) (idx : nat) (cont : nat -> presult A) : presult A :=
  match tok_at toks idx with
  | Some t => if p (t_kind t) then cont (S idx) else PErr
  | None => PErr
  end.

(* for idx < len && !stop(tokens[idx]) { idx++ }: the final idx.  cnt bounds the iterations; every
   caller passes length toks, which is never exhausted before idx reaches len *)
Fixpoint bp_scan (stop : token -> bool) (cnt i : nat) : nat :=
  match cnt with
  | O => i
  | S c => match tok_at toks i with
           | Some t => if stop t then i else bp_scan stop c (S i)
           | None => i
           end
  end.

Section Handlers.
Variable outer : nat -> presult (list bp_tree).     (* parseOuterTemplate at lower fuel, same open blocks *)
(* parseOuterTemplate for the body of a block of the given name: None when a block of that name is
   already open (Parser.openBlocks), otherwise the parser with the name pushed *)
Variable outer_blk : bytes -> option (nat -> presult (list bp_tree)).

(* ---- parse_if.go: the elseif / else / endif loop *)
Fixpoint bp_if_loop (cnt i : nat) (has_else : bool) (bodies : list (list bp_tree)) (els : option (list bp_tree))
  : presult bp_tree :=
  match cnt with
  | O => PFuel
  | S c =>
    match tok_at toks i with
    | None => PErr
    | Some t =>
      if k_block_start (t_kind t) then
        let i1 := S i in
        match tok_at toks i1 with
        | None => bp_err_back i1 1
        | Some nm =>
          if k_name (t_kind nm) then
            let i2 := S i1 in
            if bytes_eqb (t_val nm) b#"elseif" then
              if has_else then PErr
              else match skip toks i2 with
                   | None => PErr
                   | Some j => bp_expect k_block_end j (fun j1 =>
                                 bp_bind (outer j1) (fun j2 b => bp_if_loop c j2 has_else (bodies ++ [b]) els))
                   end
            else if bytes_eqb (t_val nm) b#"else" then
              if has_else then PErr
              else bp_expect k_block_end i2 (fun j1 =>
                     bp_bind (outer j1) (fun j2 b => bp_if_loop c j2 true bodies (Some b)))
            else if bytes_eqb (t_val nm) b#"endif" then
              bp_expect k_block_end i2 (fun j1 => POk j1 (BTIf bodies els))
            else PErr
          else bp_err_back i1 1
        end
      else PErr
    end
  end.

Definition bp_parse_if (cnt i : nat) : presult bp_tree :=
  bp_read_back i 2
    match skip toks i with
    | None => PErr
    | Some j => bp_expect k_block_end j (fun j1 =>
                  bp_bind (outer j1) (fun j2 b => bp_if_loop cnt j2 false [b] None))
    end.

(* ---- parse_for.go *)
Definition bp_for_final (body : list bp_tree) (els : option (list bp_tree)) (k : nat) : presult bp_tree :=
  match tok_at toks k with
  | Some u => if k_block_end (t_kind u) then POk (S k) (BTFor body els) else bp_err_back k 1
  | None => bp_err_back k 1
  end.

Definition bp_for_tail (i : nat) (body : list bp_tree) : presult bp_tree :=
  match tok_at toks i with
  | Some t =>
    if k_block_start (t_kind t) then
      let i1 := S i in
      match tok_at toks i1 with
      | None => bp_err_back i1 1
      | Some nm =>
        if k_name (t_kind nm) then
          if bytes_eqb (t_val nm) b#"else" then
            let i2 := S i1 in
            match tok_at toks i2 with
            | Some u =>
              if k_block_end (t_kind u) then
                bp_bind (outer (S i2)) (fun j els =>
                  match tok_at toks j with
                  | Some v =>
                    if k_block_start (t_kind v) then
                      let j1 := S j in
                      match tok_at toks j1 with
                      | Some w => if k_name (t_kind w)
                                  then if bytes_eqb (t_val w) b#"endfor" then bp_for_final body (Some els) (S j1) else PErr
                                  else bp_err_back j1 1
                      | None => bp_err_back j1 1
                      end
                    else bp_err_back j 1
                  | None => bp_err_back j 1
                  end)
              else bp_err_back i2 1
            | None => bp_err_back i2 1
            end
          else if bytes_eqb (t_val nm) b#"endfor" then bp_for_final body None (S i1)
          else PErr
        else bp_err_back i1 1
      end
    else PErr
  | None => PErr
  end.

Definition bp_for_in (i2 : nat) : presult bp_tree :=
  match tok_at toks i2 with
  | Some t =>
    if t_name b#"in" t then
      match skip toks (S i2) with
      | None => PErr
      | Some j => bp_expect k_block_end j (fun j1 => bp_bind (outer j1) (fun j2 body => bp_for_tail j2 body))
      end
    else PErr
  | None => PErr
  end.

Definition bp_parse_for (i : nat) : presult bp_tree :=
  bp_read_back i 2
    (bp_expect k_name i (fun i1 =>
       match tok_at toks i1 with
       | Some t => if t_punct b#"," t then bp_expect k_name (S i1) bp_for_in else bp_for_in i1
       | None => bp_for_in i1
       end)).

(* ---- parse_set.go *)
Definition bp_parse_set (i : nat) : presult bp_tree :=
  bp_read_back i 2
    (bp_expect k_name i (fun i1 =>
       match tok_at toks i1 with
       | Some t =>
         if t_op b#"=" t then
           match skip toks (S i1) with
           | None => PErr
           | Some j =>
             let fin k := bp_expect k_block_end k (fun k1 => POk k1 BTSet) in
             match tok_at toks j with
             | Some u => if k_op (t_kind u) && negb (bytes_eqb (t_val u) b#"=")
                         then match skip toks (S j) with None => PErr | Some j' => fin j' end
                         else fin j
             | None => fin j
             end
           end
         else PErr
       | None => PErr
       end)).

(* ---- parse_block.go *)
Definition bp_parse_block (i : nat) : presult bp_tree :=
  bp_read_back i 2
    match tok_at toks i with
    | Some nm =>
      if k_name (t_kind nm) then
        match outer_blk (t_val nm) with
        | None => PErr                   (* nested in a block of the same name *)
        | Some outer_in =>
        bp_expect k_block_end (S i) (fun i2 =>
          bp_bind (outer_in i2) (fun j body =>
            match tok_at toks j with
            | Some t =>
              if k_block_start (t_kind t) then
                let j1 := S j in
                match tok_at toks j1 with
                | Some u =>
                  if t_name b#"endblock" u then
                    let j2 := S j1 in
                    let fin k := match tok_at toks k with
                                 | Some w => if k_block_end (t_kind w) then POk (S k) (BTBlock body) else bp_err_back k 1
                                 | None => bp_err_back k 1
                                 end in
                    match tok_at toks j2 with
                    | Some w => if k_name (t_kind w)
                                then if bytes_eqb (t_val w) (t_val nm) then fin (S j2) else PErr
                                else fin j2
                    | None => fin j2
                    end
                  else bp_err_back j1 1
                | None => bp_err_back j1 1
                end
              else PErr
            | None => PErr
            end))
        end
      else PErr
    | None => PErr
    end.

(* ---- parse_extends.go *)
Definition bp_parse_extends (i : nat) : presult bp_tree :=
  bp_read_back i 2
    match skip toks i with
    | None => PErr
    | Some j => bp_expect k_block_end j (fun j1 => POk j1 BTExtends)
    end.

(* ---- parse_include.go *)
(* the test after a variable name of the with-hash, as written: an error only when the token is
   neither of kind PUNCTUATION nor has the value colon AND is neither of kind OPERATOR nor has the value equals *)
Definition bp_incl_sep_bad (u : token) : bool :=
  (negb (k_punct (t_kind u)) && negb (bytes_eqb (t_val u) b#":")) &&
  (negb (k_op (t_kind u)) && negb (bytes_eqb (t_val u) b#"=")).

Fixpoint bp_incl_hash (cnt i : nat) : presult unit :=
  match cnt with
  | O => PFuel
  | S c =>
    let entry :=
      match tok_at toks i with
      | Some t =>
        if k_string (t_kind t) || k_name (t_kind t) then
          let i1 := S i in
          match tok_at toks i1 with
          | None => PErr
          | Some u =>
            if bp_incl_sep_bad u then PErr
            else match skip toks (S i1) with
                 | None => PErr
                 | Some j =>
                   let j1 := match tok_at toks j with Some w => if t_punct b#"," w then S j else j | None => j end in
                   let j2 := bp_scan (fun w => negb (k_text (t_kind w) && bp_blank (t_val w))) (length toks) j1 in
                   bp_incl_hash c j2
                 end
          end
        else PErr
      | None => PErr
      end in
    match tok_at toks i with
    | Some t => if t_punct b#"}" t then POk (S i) tt else entry
    | None => entry
    end
  end.

Fixpoint bp_incl_old (cnt i : nat) : presult unit :=
  match cnt with
  | O => PFuel
  | S c =>
    match tok_at toks i with
    | Some t =>
      if k_name (t_kind t) then
        match tok_at toks (S i) with
        | Some u =>
          if t_op b#"=" u then
            match skip toks (S (S i)) with
            | None => PErr
            | Some j => match tok_at toks j with
                        | Some w => if t_punct b#"," w then bp_incl_old c (S j) else POk j tt
                        | None => POk j tt
                        end
            end
          else PErr
        | None => PErr
        end
      else POk i tt
    | None => POk i tt
    end
  end.

Fixpoint bp_incl_kw (cnt i : nat) : presult unit :=
  match cnt with
  | O => PFuel
  | S c =>
    match tok_at toks i with
    | Some t =>
      if k_name (t_kind t) then
        let i1 := S i in
        if bytes_eqb (t_val t) b#"with" then
          bp_bind (match tok_at toks i1 with
                   | Some u => if t_punct b#"{" u then bp_incl_hash c (S i1) else bp_incl_old c i1
                   | None => bp_incl_old c i1
                   end) (fun j _ => bp_incl_kw c j)
        else if bytes_eqb (t_val t) b#"ignore" then
          match tok_at toks i1 with
          | Some u => if t_name b#"missing" u then bp_incl_kw c (S i1) else PErr
          | None => PErr
          end
        else if bytes_eqb (t_val t) b#"only" || bytes_eqb (t_val t) b#"sandboxed" then bp_incl_kw c i1
        else PErr
      else POk i tt
    | None => POk i tt
    end
  end.

Definition bp_parse_include (cnt i : nat) : presult bp_tree :=
  bp_read_back i 2
    match skip toks i with
    | None => PErr
    | Some j =>
      bp_bind (bp_incl_kw cnt j) (fun k _ =>
        match tok_at toks k with
        | Some t => if k_block_end (t_kind t) then POk (S k) BTInclude else bp_err_back k 0
        | None => bp_err_back k 0        (* the message reads tokens[k].Type and tokens[k].Value *)
        end)
    end.

(* ---- parse_import.go *)
Definition bp_parse_import (i : nat) : presult bp_tree :=
  bp_read_back i 2
    (let std :=
       match skip toks i with
       | None => PErr
       | Some j =>
         match tok_at toks j with
         | Some t => if t_name b#"as" t
                     then bp_expect k_name (S j) (fun j2 => bp_expect k_block_end j2 (fun j3 => POk j3 BTImport))
                     else PErr
         | None => PErr
         end
       end in
     match tok_at toks i with
     | Some t =>
       if k_name (t_kind t) && bp_contains b#" as " (t_val t) then
         if bp_import_slice_panics (t_val t) then PPanic PStrSlice
         else bp_expect k_block_end (S i) (fun j => POk j BTImport)
       else std
     | None => std
     end).

(* ---- parse_from.go *)
(* the macro list loop; result: final index and number of macro names, None when cnt runs out *)
Fixpoint bp_from_loop (cnt i nm : nat) : option (nat * nat) :=
  match cnt with
  | O => None
  | S c =>
    match tok_at toks i with
    | None => Some (i, nm)
    | Some t =>
      if k_block_end (t_kind t) then Some (S i, nm)
      else if k_punct (t_kind t) then bp_from_loop c (S i) nm
      else if k_name (t_kind t) then
        let i1 := S i in
        match tok_at toks i1 with
        | Some u =>
          if t_name b#"as" u then
            let i2 := S i1 in
            match tok_at toks i2 with
            | Some w => if k_name (t_kind w) then bp_from_loop c (S i2) (S nm) else bp_from_loop c i2 (S nm)
            | None => bp_from_loop c i2 (S nm)
            end
          else bp_from_loop c i1 (S nm)
        | None => bp_from_loop c i1 (S nm)
        end
      else bp_from_loop c (S i) nm
    end
  end.

(* the fall-back on a combined NAME token, entered at index k *)
Definition bp_from_fallback (k : nat) : presult bp_tree :=
  match tok_at toks k with
  | Some t =>
    if k_name (t_kind t) && bp_one_import (t_val t) then
      let j := bp_scan (fun u => k_block_end (t_kind u)) (length toks) (S k) in
      match tok_at toks j with Some _ => POk (S j) BTFrom | None => POk j BTFrom end
    else PErr
  | None => PErr
  end.

Definition bp_parse_from (cnt i : nat) : presult bp_tree :=
  bp_read_back i 1
    match tok_at toks (S i) with
    | Some second =>
      bp_read i (fun first =>
        if (k_string (t_kind first) || k_name (t_kind first)) && t_name b#"import" second then
          match bp_from_loop cnt (S (S i)) 0 with
          | None => PFuel
          | Some (j, nm) => if 0 <? nm then POk j BTFrom else bp_from_fallback j
          end
        else bp_from_fallback i)
    | None => bp_from_fallback i
    end.

(* ---- parse_macro.go *)
Fixpoint bp_macro_params (cnt i : nat) : presult unit :=
  match cnt with
  | O => PFuel
  | S c =>
    match tok_at toks i with
    | Some t =>
      if k_name (t_kind t) then
        let i1 := S i in
        let more k := match tok_at toks k with
                      | Some w => if t_punct b#"," w then bp_macro_params c (S k) else POk k tt
                      | None => POk k tt
                      end in
        match tok_at toks i1 with
        | Some u => if t_op b#"=" u
                    then match skip toks (S i1) with None => PErr | Some j => more j end
                    else more i1
        | None => more i1
        end
      else PErr
    | None => PErr
    end
  end.

Definition bp_macro_tail (j : nat) (body : list bp_tree) : presult bp_tree :=
  match tok_at toks (S j) with
  | None => PErr
  | Some u =>
    bp_read j (fun t =>
      if k_block_start (t_kind t) && t_name b#"endmacro" u then
        let k := S (S j) in
        match tok_at toks k with
        | Some w => if k_block_end (t_kind w) then POk (S k) (BTMacro body) else bp_err_back k 0
        | None => bp_err_back k 0
        end
      else PErr)
  end.

Definition bp_macro_body (i2 : nat) : presult bp_tree :=
  bp_expect k_block_end i2 (fun i3 => bp_bind (outer i3) bp_macro_tail).

Definition bp_parse_macro (cnt i : nat) : presult bp_tree :=
  bp_read_back i 2
    match tok_at toks i with
    | Some nm =>
      if k_name (t_kind nm) then
        if bp_contains b#"(" (t_val nm) then
          if bp_macro_slice_panics (t_val nm) then PPanic PStrSlice else bp_macro_body (S i)
        else
          let i1 := S i in
          match tok_at toks i1 with
          | Some t =>
            if t_punct b#"(" t then
              let i2 := S i1 in
              let after_params k :=
                match tok_at toks k with
                | Some u => if t_punct b#")" u then bp_macro_body (S k) else PErr
                | None => PErr
                end in
              match tok_at toks i2 with
              | Some u => if negb (t_punct b#")" u)
                          then bp_bind (bp_macro_params cnt i2) (fun k _ => after_params k)
                          else after_params i2
              | None => after_params i2
              end
            else PErr
          | None => PErr
          end
      else PErr
    | None => PErr
    end.

(* ---- parse_do.go *)
(* the look-ahead over at most three tokens for an equals sign: its offset *)
Fixpoint bp_do_eq (n k i : nat) : option nat :=
  match n with
  | O => None
  | S m =>
    match tok_at toks (i + k) with
    | None => None
    | Some t => if t_op b#"=" t then Some k
                else if k_block_end (t_kind t) then None
                else bp_do_eq m (S k) i
    end
  end.

Definition bp_parse_do (i : nat) : presult bp_tree :=
  bp_read_back i 2
    (let plain :=
       match skip toks i with
       | None => PErr
       | Some j => bp_expect k_block_end j (fun j1 => POk j1 BTDo)
       end in
     match tok_at toks i with
     | None => plain
     | Some first =>
       if k_block_end (t_kind first) then PErr
       else match bp_do_eq 3 0 i with
            | Some (S e) =>
              if k_name (t_kind first) then
                match skip toks (i + S e + 1) with
                | None => PErr
                | Some j => bp_expect k_block_end j (fun j1 =>
                              if bp_atoi_ok (t_val first) then PErr else POk j1 BTSet)
                end
              else PErr
            | _ => plain
            end
     end).

(* ---- parse_apply.go *)
Definition bp_parse_apply (i : nat) : presult bp_tree :=
  bp_read_back i 2
    (bp_expect k_name i (fun i1 =>
       bp_expect k_block_end i1 (fun i2 =>
         bp_bind (outer i2) (fun j body =>
           bp_expect k_block_start j (fun j1 =>
             match tok_at toks j1 with
             | Some u => if t_name b#"endapply" u
                         then bp_expect k_block_end (S j1) (fun j3 => POk j3 (BTApply body))
                         else PErr
             | None => PErr
             end))))).

(* ---- parser.go parseSpaceless *)
Definition bp_parse_spaceless (i : nat) : presult bp_tree :=
  bp_read_back i 2
    (bp_expect k_block_end i (fun i1 =>
       bp_bind (outer i1) (fun j body =>
         bp_expect k_block_start j (fun j1 =>
           match tok_at toks j1 with
           | Some u =>
             if t_name b#"endspaceless" u then
               let j2 := S j1 in
               match tok_at toks j2 with
               | Some w => if k_block_end (t_kind w) then POk (S j2) (BTSpaceless body) else bp_err_back j2 0
               | None => bp_err_back j2 0
               end
             else bp_err_back j1 0
           | None => bp_err_back j1 0
           end)))).

(* ---- parse_verbatim.go *)
Fixpoint bp_verb_loop (cnt i : nat) : presult bp_tree :=
  match cnt with
  | O => PFuel
  | S c =>
    match tok_at toks i with
    | None => PErr
    | Some t =>
      if k_block_start (t_kind t) &&
         match tok_at toks (S i) with Some u => t_name b#"endverbatim" u | None => false end
      then bp_expect k_block_end (S (S i)) (fun j => POk j BTVerbatim)
      else
        let j := if k_text (t_kind t) then i
                 else if k_var_start (t_kind t) then bp_scan (fun u => k_var_end (t_kind u)) (length toks) (S i)
                 else if k_block_start (t_kind t) then bp_scan (fun u => k_block_end (t_kind u)) (length toks) (S i)
                 else if k_comment_start (t_kind t) then bp_scan (fun u => k_comment_end (t_kind u)) (length toks) (S i)
                 else i in
        match tok_at toks (S j) with
        | None => PErr
        | Some _ => bp_verb_loop c (S j)
        end
    end
  end.

Definition bp_parse_verbatim (cnt i : nat) : presult bp_tree :=
  bp_read_back i 2 (bp_expect k_block_end i (fun i1 => bp_verb_loop cnt i1)).

(* ---- parser.go parseEndTag *)
Definition bp_parse_endtag (i : nat) : presult bp_tree :=
  bp_read_back i 2 (bp_read_back i 1 PErr).

Definition bp_run (h : bp_handler) (cnt i : nat) : presult bp_tree :=
  match h with
  | HIf => bp_parse_if cnt i
  | HFor => bp_parse_for i
  | HBlock => bp_parse_block i
  | HExtends => bp_parse_extends i
  | HInclude => bp_parse_include cnt i
  | HSet => bp_parse_set i
  | HDo => bp_parse_do i
  | HMacro => bp_parse_macro cnt i
  | HImport => bp_parse_import i
  | HFrom => bp_parse_from cnt i
  | HSpaceless => bp_parse_spaceless i
  | HVerbatim => bp_parse_verbatim cnt i
  | HApply => bp_parse_apply i
  | HEndTag => bp_parse_endtag i
  end.
End Handlers.

(* ---- parser.go parseOuterTemplate; one unit of fuel per loop iteration; the handlers and the
        loops inside them run on the remaining fuel *)
Fixpoint bp_outer (fuel : nat) (opn : list bytes) (i : nat) : presult (list bp_tree) :=
  match fuel with
  | O => PFuel
  | S f =>
    match tok_at toks i with
    | None => POk i []
    | Some t =>
      match t_kind t with
      | KEof => POk i []
      | KText => bp_cons BTText (bp_outer f opn (S i))
      | KVarStart | KVarStartTrim =>
        match skip toks (S i) with
        | None => PErr
        | Some j => bp_expect k_var_end j (fun j1 => bp_cons BTPrint (bp_outer f opn j1))
        end
      | KBlockStart | KBlockStartTrim =>
        match tok_at toks (S i) with
        | None => PErr
        | Some nm =>
          if k_name (t_kind nm) then
            if bp_is_end_tag (t_val nm) then POk i []                 (* tokenIndex -= 2; return *)
            else match bp_dispatch (t_val nm) with
                 | None => PErr
                 | Some h =>
                   bp_bind (bp_run (bp_outer f opn)
                              (fun name => if existsb (bytes_eqb name) opn then None else Some (bp_outer f (name :: opn)))
                              h f (S (S i)))
                           (fun j nd => bp_cons nd (bp_outer f opn j))
                 end
          else PErr
        end
      | KCommentStart =>
        let j := bp_scan (fun u => k_comment_end (t_kind u)) (length toks) (S i) in
        match tok_at toks j with
        | None => PErr
        | Some _ => bp_outer f opn (S j)
        end
      | KVarEndTrim | KBlockEndTrim => PErr
      | KName =>
        (* consecutive NAME tokens of the same line become one text node; a single one otherwise *)
        let j := bp_scan (fun u => negb (k_name (t_kind u) && Nat.eqb (t_line u) (t_line t))) (length toks) (S i) in
        bp_cons BTText (bp_outer f opn j)
      | KPunct | KOperator | KString | KNumber => bp_cons BTText (bp_outer f opn (S i))
      | KVarEnd | KBlockEnd | KCommentEnd => PErr
      end
    end
  end.

Definition bp_parse : presult (list bp_tree) := bp_outer (S (length toks)) [] 0.
End BlockParser.

(* ------------------------------------------------------------------ a concrete stand-in for parseExpression *)
(* A bracket-balanced scan over expression tokens that stops where parseExpression stops in the
   well-formed cases: at depth 0 before a comma, colon (unless a question mark is pending), closing
   bracket, the operators = ! &, a NAME that is not an operator word, a literal that follows an
   operand, and any token that is not an expression token.  need: an operand is expected; depth: open
   brackets; q: pending question marks at depth 0; opened: the previous token opened a bracket. *)
Definition bp_word_binop (v : bytes) : bool :=
  existsb (bytes_eqb v) [b#"and"; b#"or"; b#"in"; b#"matches"; b#"is"].
Definition bp_op_stops (v : bytes) : bool := existsb (bytes_eqb v) [b#"="; b#"!"; b#"&"].
Definition bp_is_open (v : bytes) : bool := existsb (bytes_eqb v) [b#"("; b#"["; b#"{"].
Definition bp_is_close (v : bytes) : bool := existsb (bytes_eqb v) [b#")"; b#"]"; b#"}"].

Fixpoint bp_std_go (l : list token) (i : nat) (need : bool) (depth q : nat) (opened : bool) : option nat :=
  let stop := if need || (0 <? depth) then None else Some i in
  match l with
  | [] => stop
  | t :: r =>
    if negb (k_expr (t_kind t)) then stop
    else if need then
      match t_kind t with
      | KString | KNumber => bp_std_go r (S i) false depth q false
      | KName => if bytes_eqb (t_val t) b#"not" then bp_std_go r (S i) true depth q false
                 else bp_std_go r (S i) false depth q false
      | KOperator => if bytes_eqb (t_val t) b#"-" || bytes_eqb (t_val t) b#"+"
                     then bp_std_go r (S i) true depth q false else None
      | KPunct => if bp_is_open (t_val t) then bp_std_go r (S i) true (S depth) q true
                  else if bp_is_close (t_val t) && opened && (0 <? depth) then bp_std_go r (S i) false (depth - 1) q false
                  else None
      | _ => None
      end
    else
      match t_kind t with
      | KPunct =>
        let v := t_val t in
        if bytes_eqb v b#"." || bytes_eqb v b#"|" then bp_std_go r (S i) true depth q false
        else if bytes_eqb v b#"(" || bytes_eqb v b#"[" then bp_std_go r (S i) true (S depth) q true
        else if bytes_eqb v b#"?" then bp_std_go r (S i) true depth (if depth =? 0 then S q else q) false
        else if bytes_eqb v b#":" then
          if 0 <? depth then bp_std_go r (S i) true depth q false
          else if 0 <? q then bp_std_go r (S i) true depth (q - 1) false
          else stop
        else if bytes_eqb v b#"," then if 0 <? depth then bp_std_go r (S i) true depth q false else stop
        else if bp_is_close v then if 0 <? depth then bp_std_go r (S i) false (depth - 1) q false else stop
        else stop
      | KOperator => if bp_op_stops (t_val t) then stop else bp_std_go r (S i) true depth q false
      | KName =>
        let v := t_val t in
        if bp_word_binop v then bp_std_go r (S i) true depth q false
        else match r with
             | u :: r' =>
               if k_name (t_kind u) &&
                  ((bytes_eqb v b#"not" && bytes_eqb (t_val u) b#"in") ||
                   ((bytes_eqb v b#"starts" || bytes_eqb v b#"ends") && bytes_eqb (t_val u) b#"with"))
               then bp_std_go r' (S (S i)) true depth q false
               else if k_name (t_kind u) && bytes_eqb v b#"not" && bytes_eqb (t_val u) b#"defined"
               then bp_std_go r' (S (S i)) false depth q false
               else stop
             | [] => stop
             end
      | _ => stop
      end
  end.

Definition bp_skip_std (toks : list token) (i : nat) : option nat :=
  bp_std_go (skipn i toks) i true 0 0 false.

(* the longest run of expression tokens (at least one): the other extreme *)
Fixpoint bp_greedy_go (l : list token) (i : nat) : nat :=
  match l with
  | t :: r => if k_expr (t_kind t) then bp_greedy_go r (S i) else i
  | [] => i
  end.
Definition bp_skip_greedy (toks : list token) (i : nat) : option nat :=
  let j := bp_greedy_go (skipn i toks) i in if i <? j then Some j else None.

(* what Parser.Parse makes of a token list with the standard stand-in *)
Definition bp_parse_std (toks : list token) : presult (list bp_tree) := bp_parse bp_skip_std toks.
