(* The registered filters, functions and tests of extension.go that the evaluator model covers.
   apply_builtin_filter / apply_builtin_function / apply_builtin_test are total: Ok / Err class as the Go
   function returns, Unmodelled for every name or argument shape outside the modelled fragment (see the list in
   each dispatch). Case mapping is ASCII only. No proofs here. *)
From Twig Require Import Base.Bytes Base.Utf8 Model.Ast Model.Value Model.ValueOps Model.Escape.
From Coq Require Import NArith.

Definition bi_str (v : value) (k : bytes -> outcome value) : outcome value :=
  match vo_to_str v with Some s => k s | None => Unmodelled end.

(* ---------------------------------------------------------------- strings *)
Definition bi_is_space (b : byte) : bool :=
  let n := u8_n b in ((9 <=? n) && (n <=? 13) || (n =? 32))%N.      (* \t \n \v \f \r and space *)
(* lead bytes of the non-ASCII code points unicode.IsSpace accepts (U+0085, U+00A0, U+1680, U+2000.., U+3000) *)
Definition bi_maybe_unicode_space (s : bytes) : bool :=
  existsb (fun b => let n := u8_n b in ((n =? 194) || (n =? 225) || (n =? 226) || (n =? 227))%N) s.

Fixpoint bi_drop_while (p : byte -> bool) (s : bytes) : bytes :=
  match s with
  | [] => []
  | b :: r => if p b then bi_drop_while p r else s
  end.
Definition bi_trim_with (p : byte -> bool) (s : bytes) : bytes :=
  rev (bi_drop_while p (rev (bi_drop_while p s))).

(* strings.Fields on ASCII white space *)
Fixpoint bi_fields_go (s : bytes) (cur : bytes) : list bytes :=
  match s with
  | [] => match cur with [] => [] | _ => [rev cur] end
  | b :: r =>
    if bi_is_space b then
      match cur with [] => bi_fields_go r [] | _ => rev cur :: bi_fields_go r [] end
    else bi_fields_go r (b :: cur)
  end.
Definition bi_fields (s : bytes) : list bytes := bi_fields_go s [].

(* capitalize and title: first rune of every word upper case, the rest lower case, words joined by one space *)
Definition bi_capitalize (s : bytes) : outcome value :=
  match s with
  | [] => Ok (VStr [])
  | _ =>
    if vo_is_ascii s then
      Ok (VStr (vo_join [x20] (map (fun w => match w with
                                            | [] => []
                                            | c :: r => vo_upper_byte c :: map vo_lower_byte r
                                            end) (bi_fields s))))
    else Unmodelled
  end.

(* regexp >\s+< replaced by ><, leftmost, non overlapping. \s of RE2 is [\t\n\f\r ] *)
Definition bi_re_space (b : byte) : bool :=
  let n := u8_n b in ((n =? 9) || (n =? 10) || (n =? 12) || (n =? 13) || (n =? 32))%N.
Fixpoint bi_spaceless_fuel (fuel : nat) (s : bytes) : bytes :=
  match fuel with
  | O => s
  | S f =>
    match s with
    | [] => []
    | b :: r =>
      if Byte.eqb b x3e then
        let rest := bi_drop_while bi_re_space r in
        match rest with
        | c :: rest' =>
          if Byte.eqb c x3c && negb (Nat.eqb (length rest) (length r))
          then x3e :: x3c :: bi_spaceless_fuel f rest'
          else b :: bi_spaceless_fuel f r
        | [] => b :: bi_spaceless_fuel f r
        end
      else b :: bi_spaceless_fuel f r
    end
  end.
Definition bi_spaceless (s : bytes) : bytes := bi_spaceless_fuel (length s) s.

Fixpoint bi_nl2br (s : bytes) : bytes :=
  match s with
  | [] => []
  | b :: r =>
    if Byte.eqb b x0d then
      match r with
      | c :: r' => if Byte.eqb c x0a then b#"<br>" ++ bi_nl2br r' else b#"<br>" ++ bi_nl2br r
      | [] => b#"<br>"
      end
    else if Byte.eqb b x0a then b#"<br>" ++ bi_nl2br r
    else b :: bi_nl2br r
  end.

(* strings.ReplaceAll with a non-empty search string *)
Fixpoint bi_replace_fuel (fuel : nat) (search repl s : bytes) : bytes :=
  match fuel with
  | O => s
  | S f =>
    match s with
    | [] => []
    | b :: r =>
      if prefixb search s then repl ++ bi_replace_fuel f search repl (skipn (length search) s)
      else b :: bi_replace_fuel f search repl r
    end
  end.

(* ---------------------------------------------------------------- lists *)
Fixpoint bi_last {A} (l : list A) : option A :=
  match l with
  | [] => None
  | [x] => Some x
  | _ :: r => bi_last r
  end.

(* the index arithmetic shared by the four arms of filterSlice: (start, end) into a sequence of n items,
   None when the result is empty because start >= n *)
Definition bi_slice_bounds (n start : Z) (len : option Z) : option (Z * Z) :=
  let start1 := if (start <? 0)%Z then (n + start)%Z else start in
  let start2 := if (start1 <? 0)%Z then 0%Z else start1 in
  if (n <=? start2)%Z then None
  else
    let e :=
      match len with
      | None => n
      | Some l =>
        if (0 <=? l)%Z then (if (n <? start2 + l)%Z then n else (start2 + l)%Z)
        else (if (n + l <? start2)%Z then start2 else (n + l)%Z)
      end in
    Some (start2, e).
Definition bi_sub {A} (l : list A) (s e : Z) : list A :=
  firstn (Z.to_nat (e - s)) (skipn (Z.to_nat s) l).

(* keys with their text for sorting; None when an element has no modelled text *)
Fixpoint bi_keyed (xs : list value) : option (list (bytes * value)) :=
  match xs with
  | [] => Some []
  | x :: r =>
    match vo_to_str x, bi_keyed r with
    | Some k, Some r' => Some ((k, x) :: r')
    | _, _ => None
    end
  end.
(* two elements with the same sort key that are not the same value *)
Fixpoint bi_has_tie (l : list (bytes * value)) : bool :=
  match l with
  | [] => false
  | (k, x) :: r => existsb (fun p => bytes_eqb (fst p) k && negb (vo_value_eqb (snd p) x)) r || bi_has_tie r
  end.

Definition bi_ints (xs : list value) : option (list Z) :=
  vo_opt_list (map (fun x => match x with VInt z => Some z | _ => None end) xs).

(* ---------------------------------------------------------------- the filters *)
Definition bi_arg (args : list value) (i : nat) : option value := nth_error args i.

Definition bi_filter_trim (v : value) (args : list value) : outcome value :=
  bi_str v (fun s =>
    match args with
    | [] => if bi_maybe_unicode_space s then Unmodelled else Ok (VStr (bi_trim_with bi_is_space s))
    | a :: _ =>
      match vo_to_str a with
      | None => Unmodelled
      | Some cut =>
        if vo_is_ascii cut && vo_is_ascii s
        then Ok (VStr (bi_trim_with (fun b => existsb (Byte.eqb b) cut) s))
        else Unmodelled
      end
    end).

Definition bi_filter_join (v : value) (args : list value) : outcome value :=
  let delim := match args with VStr d :: _ => d | _ => [x20] end in
  match vo_view v with
  | KNull => Ok (VStr [])
  | KList _ xs =>
    match vo_opt_list (map vo_to_str xs) with
    | Some parts => Ok (VStr (vo_join delim parts))
    | None => Unmodelled
    end
  | _ => bi_str v (fun s => Ok (VStr s))
  end.

Definition bi_filter_first (v : value) : outcome value :=
  match vo_view v with
  | KNull => Ok VNull
  | KStr s => Ok (VStr (firstn (snd (u8_step s)) s))
  | KList _ xs => Ok (match xs with x :: _ => x | [] => VNull end)
  | KMap _ kvs => Ok (match vo_sorted_entries kvs with (_, x) :: _ => x | [] => VNull end)
  | KOther => Unmodelled
  | _ => Err EOther
  end.

Definition bi_filter_last (v : value) : outcome value :=
  match vo_view v with
  | KNull => Ok VNull
  | KStr s => Ok (VStr (skipn (length s - u8_last_width s) s))
  | KList _ xs => Ok (match bi_last xs with Some x => x | None => VNull end)
  | KOther => Unmodelled
  | _ => Err EOther
  end.

Definition bi_filter_abs (v : value) : outcome value :=
  match vo_view v with
  | KNull => Ok v
  | KBool _ | KInt _ | KFloat _ | KStr _ =>
    match vo_to_number v with
    | NumI z => Ok (VFloat (Z.abs z))
    | NumNo => Ok v
    | NumUnk => Unmodelled
    end
  | KOther => Unmodelled
  | _ => Ok v
  end.

Definition bi_filter_keys (v : value) : outcome value :=
  match vo_view v with
  | KNull => Ok VNull
  | KMap MAny kvs => Ok (VList LStrings (map fst (vo_sorted_entries kvs)))
  | KMap _ kvs => Ok (VList LAny (map fst (vo_sorted_entries kvs)))
  | KPtr _ | KOther => Unmodelled
  | _ => Err EOther
  end.

(* merge on a map: the result is a map[string]interface{} under the keys' text forms, whatever the types of the
   receiver and of the arguments; arguments that are not maps are ignored *)
Fixpoint bi_merge_maps (acc : list (value * value)) (args : list value) : option (list (value * value)) :=
  match args with
  | [] => Some acc
  | a :: r =>
    match vo_view a with
    | KMap _ kvs => bi_merge_maps (fold_left (fun m kv => vo_map_set m (VStr (vo_key_text (fst kv))) (snd kv)) kvs acc) r
    | KOther => None
    | _ => bi_merge_maps acc r
    end
  end.

Definition bi_filter_merge (v : value) (args : list value) : outcome value :=
  match vo_view v with
  | KList _ xs =>
    if existsb (fun a => match vo_view a with KOther => true | _ => false end) args then Unmodelled
    else Ok (VList LAny (xs ++ flat_map (fun a => match vo_view a with KList _ ys => ys | _ => [] end) args))
  | KMap _ kvs =>
    match bi_merge_maps (fold_left (fun m kv => vo_map_set m (VStr (vo_key_text (fst kv))) (snd kv)) kvs []) args with
    | Some m => Ok (VMap MAny m)
    | None => Unmodelled
    end
  | KOther => Unmodelled
  | _ => Ok v
  end.

(* a Go array ([n]T) yields a slice of its element type: []interface{} for the arrays of the universe *)
Definition bi_slice_tag (t : ltag) : ltag := match t with LArray => LAny | _ => t end.

Definition bi_filter_reverse (v : value) : outcome value :=
  match vo_view v with
  | KNull => Ok VNull
  | KStr s => Ok (VStr (concat (rev (u8_chars s))))
  | KList t xs => Ok (VList (bi_slice_tag t) (rev xs))
  | KOther => Unmodelled
  | _ => Err EOther
  end.

(* the numeric value of every element, when all elements are numbers (allNumbers / numberValue) *)
Definition bi_all_numbers (xs : list value) : option (list (Z * value)) :=
  vo_opt_list (map (fun x => match vo_view x with
                             | KInt z | KFloat z => if vo_in_range z then Some (z, x) else None
                             | _ => None
                             end) xs).
Definition bi_only_numbers (xs : list value) : bool :=
  forallb (fun x => match vo_view x with KInt _ | KFloat _ => true | _ => false end) xs.

Definition bi_filter_sort (v : value) : outcome value :=
  match vo_view v with
  | KNull => Ok VNull
  | KList LStrings xs =>
    match bi_keyed xs with
    | Some ks => Ok (VList LAny (map snd (vo_sort (fun a b => vo_bytes_ltb (fst a) (fst b)) ks)))
    | None => Unmodelled
    end
  | KList LInts xs =>
    match bi_ints xs with
    | Some zs => Ok (VList LAny (map VInt (vo_sort Z.ltb zs)))
    | None => Unmodelled
    end
  | KList t xs =>
    match xs with
    | [] => Ok (VList (bi_slice_tag t) [])
    | _ =>
      if bi_only_numbers xs then
        (* a list of numbers is ordered by value, stably *)
        match bi_all_numbers xs with
        | Some ks => Ok (VList LAny (map snd (vo_sort (fun a b => (fst a <? fst b)%Z) ks)))
        | None => Unmodelled
        end
      else
        match bi_keyed xs with
        | Some ks =>
          (* []interface{} goes through sort.Slice (not stable beyond 12 elements), an array through SliceStable *)
          if (match t with LAny => true | _ => false end) && (12 <? length xs)%nat && bi_has_tie ks then Unmodelled
          else Ok (VList LAny (map snd (vo_sort (fun a b => vo_bytes_ltb (fst a) (fst b)) ks)))
        | None => Unmodelled
        end
    end
  | KOther => Unmodelled
  | _ => Err EOther
  end.

Definition bi_filter_slice (v : value) (args : list value) : outcome value :=
  match vo_view v with
  | KNull => Ok VNull
  | _ =>
    match args with
    | [] => Err EOther
    | a0 :: rest =>
      match vo_to_int a0 with
      | Ok start =>
        let len_o : outcome (option Z) :=
          match rest with
          | [] => Ok None
          | a1 :: _ =>
            match a1 with
            | VNull => Ok None
            | _ => match vo_to_int a1 with
                   | Ok l => Ok (Some l)
                   | Err e => Err e
                   | OutOfFuel => OutOfFuel
                   | Unmodelled => Unmodelled
                   end
            end
          end in
        match len_o with
        | Ok len =>
          match vo_view v with
          | KStr s =>
            let cs := u8_chars s in
            match bi_slice_bounds (Z.of_nat (length cs)) start len with
            | None => Ok (VStr [])
            | Some (s0, e0) => Ok (VStr (concat (bi_sub cs s0 e0)))
            end
          | KList t xs =>
            match bi_slice_bounds (Z.of_nat (length xs)) start len with
            | None => Ok (VList (bi_slice_tag t) [])
            | Some (s0, e0) => Ok (VList (bi_slice_tag t) (bi_sub xs s0 e0))
            end
          | KOther => Unmodelled
          | _ => Err EOther
          end
        | Err e => Err e
        | OutOfFuel => OutOfFuel
        | Unmodelled => Unmodelled
        end
      | Err e => Err e
      | OutOfFuel => OutOfFuel
      | Unmodelled => Unmodelled
      end
    end
  end.

(* The registered filter of that name applied to v with evaluated arguments. Modelled: default escape e upper
   lower trim raw length count join capitalize title first last slice reverse sort keys merge replace abs
   nl2br spaceless. Unmodelled: split date url_encode striptags number_format round format json_encode and any
   other name. *)
Definition apply_builtin_filter (name : bytes) (v : value) (args : list value) : outcome value :=
  if bytes_eqb name b#"default" then
    match args with
    | [] => Ok v
    | d :: _ => if vo_is_empty v then Ok d else Ok v
    end
  else if bytes_eqb name b#"escape" || bytes_eqb name b#"e" then bi_str v (fun s => Ok (VStr (escape s)))
  else if bytes_eqb name b#"upper" then
    bi_str v (fun s => if vo_is_ascii s then Ok (VStr (map vo_upper_byte s)) else Unmodelled)
  else if bytes_eqb name b#"lower" then
    bi_str v (fun s => if vo_is_ascii s then Ok (VStr (map vo_lower_byte s)) else Unmodelled)
  else if bytes_eqb name b#"trim" then bi_filter_trim v args
  else if bytes_eqb name b#"raw" then Ok v
  else if bytes_eqb name b#"length" || bytes_eqb name b#"count" then
    match vo_length v with
    | Ok n => Ok (VInt n)
    | Err e => Err e
    | OutOfFuel => OutOfFuel
    | Unmodelled => Unmodelled
    end
  else if bytes_eqb name b#"join" then bi_filter_join v args
  else if bytes_eqb name b#"capitalize" || bytes_eqb name b#"title" then bi_str v bi_capitalize
  else if bytes_eqb name b#"first" then bi_filter_first v
  else if bytes_eqb name b#"last" then bi_filter_last v
  else if bytes_eqb name b#"slice" then bi_filter_slice v args
  else if bytes_eqb name b#"reverse" then bi_filter_reverse v
  else if bytes_eqb name b#"sort" then bi_filter_sort v
  else if bytes_eqb name b#"keys" then bi_filter_keys v
  else if bytes_eqb name b#"merge" then bi_filter_merge v args
  else if bytes_eqb name b#"replace" then
    bi_str v (fun s =>
      match args with
      | a0 :: a1 :: _ =>
        match vo_to_str a0, vo_to_str a1 with
        | Some search, Some repl =>
          match search with
          | [] => Unmodelled
          | _ => Ok (VStr (bi_replace_fuel (length s) search repl s))
          end
        | _, _ => Unmodelled
        end
      | _ => Err EOther
      end)
  else if bytes_eqb name b#"abs" then bi_filter_abs v
  else if bytes_eqb name b#"nl2br" then bi_str v (fun s => Ok (VStr (bi_nl2br s)))
  else if bytes_eqb name b#"spaceless" then
    match v with
    | VNull => Ok (VStr [])
    | _ => match vo_fmt v with Some s => Ok (VStr (bi_spaceless s)) | None => Unmodelled end
    end
  else Unmodelled.

(* ---------------------------------------------------------------- functions *)
(* the loop of functionRange: for i := start; i <= end (>= for a negative step); i += step *)
Fixpoint bi_range_loop (fuel : nat) (i stop step : Z) : list Z :=
  match fuel with
  | O => []
  | S f =>
    if (if (0 <? step)%Z then (i <=? stop)%Z else (stop <=? i)%Z)
    then i :: bi_range_loop f (i + step) stop step
    else []
  end.
Definition bi_range_limit : Z := 10000%Z.
Definition bi_range (start stop step : Z) : outcome value :=
  if (step =? 0)%Z then Err EOther
  else if (bi_range_limit <? Z.abs (stop - start))%Z then Unmodelled
  else Ok (VList LAny (map VInt (bi_range_loop (S (Z.to_nat (Z.abs (stop - start)))) start stop step))).

Definition bi_ints_of (args : list value) (k : list Z -> outcome value) : outcome value :=
  (fix go (l : list value) (acc : list Z) : outcome value :=
     match l with
     | [] => k (rev acc)
     | a :: r =>
       match vo_to_int a with
       | Ok z => go r (z :: acc)
       | Err e => Err e
       | OutOfFuel => OutOfFuel
       | Unmodelled => Unmodelled
       end
     end) args [].

(* toFloat64 of every argument, first failure wins *)
Fixpoint bi_floats (args : list value) : outcome (list Z) :=
  match args with
  | [] => Ok []
  | a :: r =>
    match vo_view a with
    | KBool _ | KInt _ | KFloat _ | KStr _ =>
      match vo_to_number a with
      | NumI z => match bi_floats r with
                  | Ok zs => Ok (z :: zs)
                  | Err e => Err e
                  | OutOfFuel => OutOfFuel
                  | Unmodelled => Unmodelled
                  end
      | NumNo => Err EOther
      | NumUnk => Unmodelled
      end
    | KOther => Unmodelled
    | _ => Err EOther
    end
  end.

Definition bi_all_strings (args : list value) : option (list bytes) :=
  vo_opt_list (map (fun a => match a with VStr s => Some s | _ => None end) args).

Definition bi_extreme (is_max : bool) (args : list value) : outcome value :=
  match args with
  | [] => Err EOther
  | _ =>
    match bi_all_strings args with
    | Some (s0 :: ss) =>
      Ok (VStr (fold_left (fun m s => if (if is_max then vo_bytes_ltb m s else vo_bytes_ltb s m) then s else m) ss s0))
    | _ =>
      match bi_floats args with
      | Ok (z0 :: zs) => Ok (VFloat (fold_left (fun m z => if is_max then Z.max m z else Z.min m z) zs z0))
      | Ok [] => Err EOther
      | Err e => Err e
      | OutOfFuel => OutOfFuel
      | Unmodelled => Unmodelled
      end
    end
  end.

(* The registered function of that name. Modelled: range max min length merge (lists) parent include (always
   an error). Unmodelled: date random dump constant cycle json_encode, merge on maps. *)
Definition apply_builtin_function (name : bytes) (args : list value) : outcome value :=
  if bytes_eqb name b#"range" then
    match args with
    | [_] => bi_ints_of args (fun zs => match zs with [e] => bi_range 0 e 1 | _ => Unmodelled end)
    | [_; _] => bi_ints_of args (fun zs => match zs with [s; e] => bi_range s e 1 | _ => Unmodelled end)
    | [_; _; _] => bi_ints_of args (fun zs => match zs with [s; e; st] => bi_range s e st | _ => Unmodelled end)
    | _ => Err EOther
    end
  else if bytes_eqb name b#"max" then bi_extreme true args
  else if bytes_eqb name b#"min" then bi_extreme false args
  else if bytes_eqb name b#"length" then
    match args with
    | [a] =>
      match vo_length a with
      | Ok n => Ok (VInt n)
      | Err _ => Ok (VInt 0)
      | OutOfFuel => OutOfFuel
      | Unmodelled => Unmodelled
      end
    | _ => Err EOther
    end
  else if bytes_eqb name b#"merge" then
    match args with
    | a0 :: _ :: _ =>
      match vo_view a0 with
      | KList _ xs =>
        if existsb (fun a => match vo_view a with KOther => true | _ => false end) args then Unmodelled
        else Ok (VList LAny (xs ++ flat_map (fun a => match vo_view a with KList _ ys => ys | _ => [a] end) (tl args)))
      | KMap _ _ | KOther => Unmodelled
      | _ => Err EOther
      end
    | _ => Err EOther
    end
  else if bytes_eqb name b#"parent" then Ok VParentCall
  else if bytes_eqb name b#"include" then Err EOther
  else Unmodelled.

(* ---------------------------------------------------------------- tests *)
Definition bi_bool (b : bool) : outcome value := Ok (VBool b).

(* Go interface equality value == arg for the comparable kinds; None when it is not modelled (or panics) *)
Definition bi_scalar (k : vo_kind) : bool :=
  match k with KNull | KBool _ | KInt _ | KFloat _ | KStr _ => true | _ => false end.
Definition bi_same (a b : value) : option bool :=
  match vo_view a, vo_view b with
  | KNull, KNull => Some true
  | KBool x, KBool y => Some (Bool.eqb x y)
  | KInt x, KInt y => Some (x =? y)%Z
  | KFloat x, KFloat y => Some (x =? y)%Z
  | KStr x, KStr y => Some (bytes_eqb x y)
  | ka, kb => if bi_scalar ka && bi_scalar kb then Some false else None
  end.

(* The registered test of that name on an evaluated value. Modelled: defined empty null none even odd iterable
   same_as sameas divisible_by equalto starts_with ends_with constant (always an error). Unmodelled: matches. *)
Definition apply_builtin_test (name : bytes) (v : value) (args : list value) : outcome value :=
  if bytes_eqb name b#"defined" then bi_bool (match v with VNull => false | _ => true end)
  else if bytes_eqb name b#"empty" then bi_bool (vo_is_empty v)
  else if bytes_eqb name b#"null" || bytes_eqb name b#"none" then bi_bool (match v with VNull => true | _ => false end)
  else if bytes_eqb name b#"even" || bytes_eqb name b#"odd" then
    match vo_to_int v with
    | Ok z => bi_bool (if bytes_eqb name b#"even" then (Z.rem z 2 =? 0)%Z else negb (Z.rem z 2 =? 0)%Z)
    | Err e => Err e
    | OutOfFuel => OutOfFuel
    | Unmodelled => Unmodelled
    end
  else if bytes_eqb name b#"iterable" then bi_bool (vo_is_iterable v)
  else if bytes_eqb name b#"same_as" || bytes_eqb name b#"sameas" then
    match args with
    | [] => Err EOther
    | a :: _ => match bi_same v a with Some b => bi_bool b | None => Unmodelled end
    end
  else if bytes_eqb name b#"divisible_by" then
    match args with
    | [] => Err EOther
    | a :: _ =>
      match vo_to_int v with
      | Ok x =>
        match vo_to_int a with
        | Ok d => if (d =? 0)%Z then Err EOther else bi_bool (Z.rem x d =? 0)%Z
        | Err e => Err e
        | OutOfFuel => OutOfFuel
        | Unmodelled => Unmodelled
        end
      | Err e => Err e
      | OutOfFuel => OutOfFuel
      | Unmodelled => Unmodelled
      end
    end
  else if bytes_eqb name b#"equalto" then
    match args with
    | [] => Err EOther
    | a :: _ => match vo_to_str v, vo_to_str a with
                | Some x, Some y => bi_bool (bytes_eqb x y)
                | _, _ => Unmodelled
                end
    end
  else if bytes_eqb name b#"starts_with" then
    match args with
    | [] => Err EOther
    | a :: _ => match vo_to_str v, vo_to_str a with
                | Some x, Some p => bi_bool (prefixb p x)
                | _, _ => Unmodelled
                end
    end
  else if bytes_eqb name b#"ends_with" then
    match args with
    | [] => Err EOther
    | a :: _ => match vo_to_str v, vo_to_str a with
                | Some x, Some p => bi_bool (prefixb (rev p) (rev x))
                | _, _ => Unmodelled
                end
    end
  else if bytes_eqb name b#"constant" then Err EOther
  else Unmodelled.
