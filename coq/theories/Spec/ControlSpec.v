(* C09, declarative layer: what if, for and set MEAN.

   c9_truthy      the table of the property: false, 0, the empty string, null, an empty list and an empty map
                  are falsy, everything else is truthy (0 is zero whatever its Go number type)
   c9_if          an if / elseif / else chain renders the body of the first condition whose value is truthy,
                  otherwise the else branch, otherwise nothing; later conditions are not evaluated
   c9_items       what a for loop ranges over: the elements of a list in order, the code points of a string in
                  order, the entries of a map in ascending key order -- each with its key (index for lists
                  and strings); nothing for any other value
   c9_counters    the loop variable at position i of n
   c9_for         nothing to iterate: the else branch. Otherwise the concatenation, over the elements numbered
                  from 0, of the body rendered with value variable, key variable and loop bound for that position;
                  one context is carried through the iterations, so an assignment made in one iteration is seen
                  by the later ones and after the loop; afterwards the enclosing loop variable is what it was
   c9_set         the value is bound in the context everything rendered afterwards runs in

   The meaning of expressions (conditions, sequences, assigned values) and of every other tag is not C09's
   subject: expressions are evaluated by the evaluator handed in, the other node kinds are rendered as the model
   renders them, with their bodies rendered by THIS specification. c9_render / c9_render_root mirror the
   recursion of Model/Eval.v on fuel, so that the refinement theorem (Properties/C09.v C09_refines_spec) is an
   equality for every program, context, environment and fuel.

   The truthiness function is a parameter tb of the control structure; the property's table is c9_truthy. The
   reference renderer of the correspondence check is c9_render_template c9_truthy. No proofs here. *)
From Twig Require Import Base.Bytes Base.Utf8 Model.Ast Model.Value Model.ValueOps Model.Ctx Model.TemplateSet Model.Eval.

(* ---------------------------------------------------------------- truthiness: the table *)
(* a Go float64 holding the integer z is the reserved struct VFloat z (Model/ValueOps.v) *)
Definition c9_as_float (v : value) : option Z :=
  match v with
  | VStruct ty [(_, VInt z)] => if Nat.eqb ty vo_float_ty then Some z else None
  | _ => None
  end.

Definition c9_truthy (v : value) : bool :=
  match v with
  | VNull => false
  | VBool b => b
  | VInt z => negb (z =? 0)%Z
  | VStr s => match s with [] => false | _ => true end
  | VList _ xs => match xs with [] => false | _ => true end
  | VMap _ kvs => match kvs with [] => false | _ => true end
  | _ => match c9_as_float v with Some z => negb (z =? 0)%Z | None => true end
  end.

(* a float64 zero: the one value on which the engine's toBool and the table can differ *)
Definition c9_float_zero (v : value) : bool :=
  match c9_as_float v with Some z => (z =? 0)%Z | None => false end.

(* ---------------------------------------------------------------- if *)
(* r with the events t in front of its trace *)
Definition c9_add_trace (t : ev_trace) (r : ev_rres) : ev_rres := let '(o, c, t') := r in (o, c, t ++ t').

(* the conditions of the branches pre evaluate, in order, to the values and traces vts, all falsy *)
Definition c9_falsy_prefix (tb : value -> bool) (ev : rctx -> expr -> ev_res) (c : rctx)
           (pre : list (expr * list node)) (vts : list (value * ev_trace)) : Prop :=
  Forall2 (fun br vt => ev c (fst br) = (Ok (fst vt), snd vt) /\ tb (fst vt) = false) pre vts.

Fixpoint c9_if (tb : value -> bool) (ev : rctx -> expr -> ev_res) (rend : rctx -> list node -> ev_rres) (c : rctx)
               (branches : list (expr * list node)) (els : option (list node)) : ev_rres :=
  match branches with
  | [] => match els with Some b => rend c b | None => ev_rret [] c end
  | (cond, body) :: rest =>
    ev_rexpr (ev c cond) c (fun v => if tb v then rend c body else c9_if tb ev rend c rest els)
  end.

(* ---------------------------------------------------------------- for *)
(* 0, 1, ..., n-1 as Go ints *)
Fixpoint c9_zseq (start : Z) (n : nat) : list Z :=
  match n with
  | O => []
  | S n' => start :: c9_zseq (start + 1) n'
  end.
(* the elements of a sequence with their positions as keys *)
Definition c9_numbered (xs : list value) : list (value * value) :=
  combine (map VInt (c9_zseq 0 (length xs))) xs.

Definition c9_items (seq : value) : list (value * value) :=
  match seq with
  | VList _ xs => c9_numbered xs
  | VStr s => c9_numbered (map VStr (u8_chars s))
  | VMap _ kvs => vo_sorted_entries kvs
  | _ => []
  end.

Definition c9_counters (i n : Z) : value :=
  VMap MAny [ (VStr b#"index", VInt (i + 1)); (VStr b#"index0", VInt i);
              (VStr b#"revindex", VInt (n - i)); (VStr b#"revindex0", VInt (n - i - 1));
              (VStr b#"first", VBool (i =? 0)%Z); (VStr b#"last", VBool (i =? n - 1)%Z);
              (VStr b#"length", VInt n) ].

(* the bindings of iteration i of n over item (key, value) *)
Definition c9_iter_ctx (c : rctx) (k : option bytes) (v : bytes) (n i : Z) (item : value * value) : rctx :=
  let c1 := rc_set_var c v (snd item) in
  let c2 := match k with Some kv => rc_set_var c1 kv (fst item) | None => c1 end in
  rc_set_var c2 b#"loop" (c9_counters i n).

(* one iteration appended to what has been rendered so far *)
Definition c9_step (body : rctx -> ev_rres) (k : option bytes) (v : bytes) (n : Z)
                   (acc : ev_rres) (ix : Z * (value * value)) : ev_rres :=
  ev_rseq acc (fun c => body (c9_iter_ctx c k v n (fst ix) (snd ix))).

(* concatenation over the numbered elements, the context carried along *)
Definition c9_loop (body : rctx -> ev_rres) (k : option bytes) (v : bytes) (items : list (value * value)) (c : rctx) : ev_rres :=
  fold_left (c9_step body k v (Z.of_nat (length items)))
            (combine (c9_zseq 0 (length items)) items) (ev_rret [] c).

(* after a loop the enclosing loop variable of this context is what it was before *)
Definition c9_restore (before after : rctx) : rctx :=
  match rc_own_var before b#"loop" with
  | Some outer => rc_set_var after b#"loop" outer
  | None => after
  end.

Definition c9_for_loop (rend : rctx -> list node -> ev_rres) (c : rctx) (k : option bytes) (v : bytes)
                       (seq : value) (body : list node) (els : option (list node)) : ev_rres :=
  match c9_items seq with
  | [] => match els with Some b => rend c b | None => ev_rret [] c end
  | items =>
    let '(r, c', t) := c9_loop (fun c0 => rend c0 body) k v items c in (r, c9_restore c c', t)
  end.

Definition c9_for (ev : rctx -> expr -> ev_res) (rend : rctx -> list node -> ev_rres) (env : ev_env) (c : rctx)
                  (k : option bytes) (v : bytes) (seq : expr) (body : list node) (els : option (list node)) : ev_rres :=
  ev_rexpr (ev_for_seq ev env c seq) c (fun sv => c9_for_loop rend c k v sv body els).

(* ---------------------------------------------------------------- set *)
Definition c9_set (ev : rctx -> expr -> ev_res) (c : rctx) (x : bytes) (e : expr) : ev_rres :=
  ev_rexpr (ev c e) c (fun v =>
    if ev_set_guard c v then ev_rfail Unmodelled c      (* outside the value model, see Eval.ev_set_guard *)
    else ev_rret [] (rc_set_var c x v)).

(* ---------------------------------------------------------------- a node, a body, a template *)
Definition c9_node (tb : value -> bool) (ev : rctx -> expr -> ev_res) (rend root : rctx -> list node -> ev_rres)
                   (env : ev_env) (c : rctx) (n : node) : ev_rres :=
  match n with
  | NText s => ev_rret s c
  | NIf branches els => c9_if tb ev rend c branches els
  | NFor k v seq body els => c9_for ev rend env c k v seq body els
  | NSet x e => c9_set ev c x e
  | _ => render_node ev rend root env c n
  end.

Fixpoint c9_render (tb : value -> bool) (fuel : nat) (env : ev_env) (c : rctx) (ns : list node) {struct fuel} : ev_rres :=
  match fuel with
  | O => (OutOfFuel, c, [])
  | S fu =>
    match ns with
    | [] => ev_rret [] c
    | n :: rest =>
      ev_rseq (c9_node tb (eval fu env) (c9_render tb fu env) (c9_render_root tb fu env) env c n)
              (fun c1 => c9_render tb fu env c1 rest)
    end
  end
with c9_render_root (tb : value -> bool) (fuel : nat) (env : ev_env) (c : rctx) (ns : list node) {struct fuel} : ev_rres :=
  match fuel with
  | O => (OutOfFuel, c, [])
  | S fu => ev_root (eval fu env) (c9_render tb fu env) (c9_render_root tb fu env) env c ns
  end.

Definition c9_render_template (tb : value -> bool) (fuel : nat) (env : ev_env) (name : bytes) (vars : list (bytes * value))
  : outcome bytes * ev_trace :=
  match ts_lookup env name with
  | None => (Err ENotFound, [TrLoad name])
  | Some ns =>
    let c := rc_derive (rc_fresh vars name) None false (Some name) in
    let '(r, _, t) := c9_render_root tb fuel env c ns in (r, TrLoad name :: t)
  end.

(* ---------------------------------------------------------------- range *)
(* range(a, b, s) is a, a+s, a+2s, ... up to and including b (down to b for a negative step) *)
Definition c9_range_count (a b s : Z) : Z :=
  if (0 <? s)%Z then (if (a <=? b)%Z then ((b - a) / s + 1)%Z else 0%Z)
  else if (s <? 0)%Z then (if (b <=? a)%Z then ((a - b) / (- s) + 1)%Z else 0%Z)
  else 0%Z.
Definition c9_range (a b s : Z) : list Z :=
  map (fun k => (a + k * s)%Z) (c9_zseq 0 (Z.to_nat (c9_range_count a b s))).
