(* C15, declarative layer: what the sentences of the property say, written without reference to how
   Engine.Load is organised. Definitions only; the theorems connecting them to Model/Cache.v are in
   Proofs/CacheProofs.v and stated in Properties/C15.v.

   Reading fixed in DESIGN.md (C15): a change is visible to the next call when it is a change (newer
   timestamp, or timestamp no longer obtainable) of the template in the loader that served the cached
   entry; another loader gaining the name is not demanded to be noticed before the next reload; a
   registration is not a cache entry and is served whatever the flags are. Where the text leaves the
   behaviour open, cache_allowed lists both outcomes, so that the correspondence check demands no more
   than the text. *)
From Twig Require Import Base.Bytes Model.Cache.

(* ---- registrations: the source most recently registered under a name (a registration of an
   unparsable source is rejected by RegisterString and registers nothing) ---- *)
Definition cache_reg_upd (n : N) (acc : option N) (o : cache_op) : option N :=
  match o with
  | CRegister n' src => if N.eqb n' n && negb (cache_src_bad src) then Some src else acc
  | _ => acc
  end.
Definition cache_last_reg (ops : list cache_op) (n : N) : option N :=
  fold_left (cache_reg_upd n) ops None.

(* ---- loaders are consulted in registration order, the first that has the name wins ---- *)
Fixpoint cache_first_having (ls : list cache_loader) (n : N) : option (nat * cache_loader * (N * option Z)) :=
  match ls with
  | [] => None
  | l :: r =>
    match cache_lookup (cl_files l) n with
    | Some f => Some (O, l, f)
    | None => match cache_first_having r n with
              | Some (i, l', f) => Some (S i, l', f)
              | None => None
              end
    end
  end.

(* the same, as a predicate: loader number i has the name with file f and no earlier loader has it *)
Definition cache_first_is (ls : list cache_loader) (n : N) (i : nat) (l : cache_loader) (f : N * option Z) : Prop :=
  nth_error ls i = Some l /\ cache_lookup (cl_files l) n = Some f /\
  forall j l', (j < i)%nat -> nth_error ls j = Some l' -> cache_lookup (cl_files l') n = None.
Definition cache_no_loader_has (ls : list cache_loader) (n : N) : Prop :=
  forall l, In l ls -> cache_lookup (cl_files l) n = None.

(* exactly one source obtained, from loader i *)
Fixpoint cache_unit_reads (len i : nat) : list nat :=
  match len with
  | O => []
  | S len' => match i with
              | O => 1%nat :: repeat O len'
              | S i' => O :: cache_unit_reads len' i'
              end
  end.

(* a source is served, or it does not parse *)
Definition cache_outcome (src : N) : cache_served := if cache_src_bad src then CErrOther else CServed src.

(* what a call that goes to the loaders observes now: the current content of the first loader that
   has the name, read once; a name no loader has: the not-found error and no read *)
Definition cache_spec_fresh (s : cache_state) (n : N) : cache_obs :=
  match cache_first_having (cs_loaders s) n with
  | Some (i, _, (src, _)) => COLoad (cache_outcome src) (cache_unit_reads (length (cs_loaders s)) i)
  | None => COLoad CErrNotFound (cache_zero_reads s)
  end.

(* what a call served from the template map observes: that source, no loader read *)
Definition cache_spec_kept (s : cache_state) (e : cache_entry) : cache_obs :=
  COLoad (CServed (ce_src e)) (cache_zero_reads s).

Definition cache_mem (n : N) (d : list N) : bool := existsb (N.eqb n) d.

(* ---- what the text says about a name cached from loader number i while caching is on:
   the cached template must be served, the loaders must be read, or the text leaves it open ---- *)
Inductive cache_verdict := CVKept | CVFresh | CVOpen.

Definition cache_cached_verdict (s : cache_state) (n : N) (e : cache_entry) (i : nat) : cache_verdict :=
  if negb (cs_auto s) then CVKept                   (* auto-reload off: a cached template stays as it was *)
  else
    match nth_error (cs_loaders s) i with
    | None => CVOpen
    | Some l =>
      if negb (cl_ts l) then CVOpen                 (* the text speaks about timestamp-aware loaders only *)
      else
        match cache_lookup (cl_files l) n with
        | Some (_, Some m) =>
          if Z.gtb m (ce_mtime e) then CVFresh      (* changed in its loader: visible to this call *)
          else if Z.eqb m (ce_mtime e) &&
                  match cache_first_having (cs_loaders s) n with
                  | Some (j, _, _) => Nat.eqb j i
                  | None => false
                  end
               then CVKept                          (* unchanged: not re-read *)
          else CVOpen                               (* older timestamp, or an earlier loader gained the name *)
        | _ => CVFresh                              (* timestamp no longer obtainable: a change *)
        end
    end.

(* ---- the observations the property permits for Load n.
   d (ghost): names whose cached entry was stored before the latest period with caching disabled.
   The text says nothing on whether such an entry survives that period (the engine keeps it; an
   engine that drops it and reads afresh conforms as well), so where the cached template would have
   to be served a fresh read is permitted too. ---- *)
Definition cache_allowed (s : cache_state) (d : list N) (n : N) : list cache_obs :=
  let fresh := cache_spec_fresh s n in
  match cache_lookup (cs_cache s) n with
  | None => [fresh]                                 (* neither registered nor cached: the loaders decide *)
  | Some e =>
    let kept := cache_spec_kept s e in
    match ce_loader e with
    | None => [kept]                                (* the most recent registration is served, whatever the flags *)
    | Some i =>
      if negb (cs_on s) then [fresh]                (* caching disabled: every call re-reads the loaders *)
      else
        match cache_cached_verdict s n e i with
        | CVKept => if cache_mem n d then [kept; fresh] else [kept]
        | CVFresh => [fresh]
        | CVOpen => [kept; fresh]
        end
    end
  end.

Definition cache_reads_any (rd : list nat) : bool := existsb (fun x => negb (Nat.eqb x O)) rd.

(* the ghost along a history: switching caching off (SetCache false, SetDevelopmentMode true) marks
   everything cached; a Load that stores a fresh entry unmarks its name *)
Definition cache_spec_step (sd : cache_state * list N) (o : cache_op) : (cache_state * list N) * cache_obs :=
  let (s, d) := sd in
  let (s', ob) := cache_step s o in
  let d' :=
    match o with
    | CSetCache false => map fst (cs_cache s')
    | CSetDevMode true => map fst (cs_cache s')
    | CLoad n =>
      match ob with
      | COLoad (CServed _) rd => if cs_on s && cache_reads_any rd then filter (fun k => negb (N.eqb n k)) d else d
      | _ => d
      end
    | _ => d
    end in
  ((s', d'), ob).

(* which operations may come between two calls of auto-reload-off caching without touching what is
   served for n: anything but flag changes and a registration of n itself *)
Definition cache_frozen_ok (n : N) (o : cache_op) : bool :=
  match o with
  | CRegister n' _ => negb (N.eqb n' n)
  | CSetCache _ | CSetAutoReload _ | CSetDevMode _ => false
  | _ => true
  end.
