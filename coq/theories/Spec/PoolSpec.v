(* C01 -- what the property says about the pool machine of Model/Pool.v, in its own words.

   pool_reach h r x   node x is reachable from node r by following child pointers in heap h
   pool_Inv st s      (1) no object in any node pool is reachable from a template the engines hold,
                      (2) every such template, read back through the pointers, is the tree of its
                          source (and that source is one the parser accepts)
   pool_regview s     the registration the template map holds for a name, if the entry is a registration
   pool_pristine_obs  the result of a render on a freshly created engine that was given the
                      registrations and cache settings of a history, in a process where nothing was
                      ever pooled *)
From Twig Require Import Base.Bytes Model.Ast Model.Pool.

Inductive pool_reach (h : pool_heap) : nat -> nat -> Prop :=
| pool_reach_refl i : pool_reach h i i
| pool_reach_step i c j x :
    pool_hget h i = Some c -> In j (pcl_children c) -> pool_reach h j x -> pool_reach h i x.

Definition pool_Inv (s : pool_state) : Prop :=
  (forall key t k x, In (key, t) (pst_cache s) -> In (k, x) (pst_pools s) ->
                     ~ pool_reach (pst_heap s) (pt_root t) x) /\
  (forall key t, In (key, t) (pst_cache s) ->
                 psrc_ok (pt_src t) = true /\
                 pool_read_tpl (pst_heap s) t = PLOk (psrc_nodes (pt_src t))).

Definition pool_regview (s : pool_state) (key : pool_key) : option pool_src :=
  match pool_assoc (pst_cache s) key with
  | Some t => if pt_loaded t then None else Some (pt_src t)
  | None => None
  end.

(* the render result of an operation *)
Definition pool_render_obs (cfg : pool_cfg) (st : pool_store) (orc : pool_oracle) (g : nat -> pool_garbage)
                           (s : pool_state) (e : nat) (n : N) (vars : list (N * N)) : pool_obs :=
  snd (pool_step cfg st orc g s (PORender e n vars)).

Definition pool_pristine_obs (cfg : pool_cfg) (st : pool_store) (ops : list pool_op) (e : nat) (n : N) (vars : list (N * N)) : pool_obs :=
  pool_render_obs cfg st pool_orc_fresh pool_garbage_none
                  (pool_run cfg st pool_orc_fresh pool_garbage_none (pool_config_ops ops)) e n vars.
