(* C11 -- what an include means, said declaratively (no proofs here).

   An include node  include NAME [with { k: e, ... }] [ignore missing] [only] [sandboxed]  rendered in the context c of
   the including template:
     - NAME is evaluated in c, turned into text and looked up (Eval.ev_load);
     - the named template does not exist: empty output and no error with ignore missing, the not-found error without;
     - the values of with are evaluated in c (inc_with_values), in source order, one per name (the parser keeps the last);
     - the included template is rendered from a start context ic in which
         the variable x reads   the with value of x, if there is one,
                                otherwise nothing (nil) under only,
                                otherwise what x reads in c -- own map and every parent of c        (inc_visible)
       and which is otherwise a new rendering state (inc_start_ok);
     - the output is the output of that rendering, every failure of it is the failure of the include (whatever
       ignore missing says), and the context after the include is c itself.
   inc_spec is that relation between the arguments of the include and its result; inc_spec_exec is one executable
   instance of it (the start context holds every visible variable in its own map), used by the correspondence check
   as the reference prediction through c11_render_template. *)
From Twig Require Import Base.Bytes Model.Ast Model.Value Model.ValueOps Model.Ctx Model.TemplateSet Model.Eval.

(* ---------------------------------------------------------------- the with bindings *)
(* name -> expression, one per name, as the parser leaves them; None: a with value that is not a hash literal
   with literal names is outside the model *)
Definition inc_with_exprs (withs : option expr) : option (list (bytes * expr)) :=
  match withs with
  | None => Some []
  | Some (EHash kvs) => ev_with_dedup kvs
  | Some _ => None
  end.

(* their values: evc is the evaluator of the INCLUDING context; a value that holds a macro call is outside the model *)
Fixpoint inc_with_values (evc : expr -> ev_res) (kvs : list (bytes * expr)) : outcome (list (bytes * value)) * ev_trace :=
  match kvs with
  | [] => ev_ret []
  | (k, x) :: r =>
    ev_bind (evc x) (fun v =>
      if vo_has_callable v then ev_lift Unmodelled
      else ev_bind (inc_with_values evc r) (fun ws => ev_ret ((k, v) :: ws)))
  end.

(* the binding of a name among evaluated with values: the last one written wins *)
Fixpoint inc_with_lookup (ws : list (bytes * value)) (x : bytes) : option value :=
  match ws with
  | [] => None
  | (k, v) :: r =>
    match inc_with_lookup r x with
    | Some w => Some w
    | None => if bytes_eqb k x then Some v else None
    end
  end.

(* ---------------------------------------------------------------- what the included template can read *)
Definition inc_visible (only : bool) (c : rctx) (ws : list (bytes * value)) (x : bytes) : value :=
  match inc_with_lookup ws x with
  | Some v => v
  | None => if only then VNull else rc_get_var c x
  end.

(* the start context of the included template, observationally *)
Definition inc_start_ok (only sb : bool) (c : rctx) (name : bytes) (ws : list (bytes * value)) (ic : rctx) : Prop :=
  (forall x, rc_get_var ic x = inc_visible only c ws x) /\
  (forall x v, inc_with_lookup ws x = Some v -> rc_own_var ic x = Some v) /\
  (forall x, rc_get_macro ic x = if only || sb then None else rc_get_macro c x) /\
  rc_sandboxed ic = rc_sandboxed c || sb /\
  rc_tpl ic = name /\ rc_last_loaded ic = Some name /\
  rc_blocks ic = (if only || sb then [] else rc_blocks c) /\
  rc_parent_blocks ic = [] /\ rc_chain ic = None /\ rc_extending ic = false /\
  rc_cur_block ic = None /\ rc_cur_defs ic = [] /\ rc_depth ic = 0 /\ rc_in_parent_call ic = false.

Definition inc_no_policy (env : ev_env) : bool := match e_policy env with None => true | Some _ => false end.

(* ---------------------------------------------------------------- the include, as a relation *)
Definition inc_spec (ev : rctx -> expr -> ev_res) (root : rctx -> list node -> ev_rres) (env : ev_env) (c : rctx)
                    (e : expr) (withs : option expr) (ignore_missing only sb : bool) (res : ev_rres) : Prop :=
  match ev_load ev env c e with
  | (Ok (name, None), t) =>
    res = if ignore_missing then (Ok [], c, t) else (Err ENotFound, c, t)
  | (Ok (name, Some inodes), t) =>
    match inc_with_exprs withs with
    | None => res = (Unmodelled, c, t)
    | Some kvs =>
      if sb && inc_no_policy env then res = (Err EOther, c, t)
      else
        match inc_with_values (ev c) kvs with
        | (Ok ws, t2) =>
          exists ic, inc_start_ok only sb c name ws ic /\
                     res = (let '(r, _, t3) := root ic inodes in (r, c, t ++ t2 ++ t3))
        | (o, t2) => res = (ev_cast o Unmodelled, c, t ++ t2)
        end
    end
  | (o, t) => res = (ev_cast o Unmodelled, c, t)
  end.

(* ---------------------------------------------------------------- observational equality of two contexts *)
(* what the including template can see of its own state: variables (own map and every parent), macros, blocks,
   the chain of block definitions, the block being rendered, the flags *)
Record inc_same_state (c c' : rctx) : Prop := MkIncSame {
  iss_get_var : forall x, rc_get_var c' x = rc_get_var c x;
  iss_own_vars : rc_vars c' = rc_vars c;
  iss_parent : rc_parent c' = rc_parent c;
  iss_get_macro : forall x, rc_get_macro c' x = rc_get_macro c x;
  iss_macros : rc_macros c' = rc_macros c;
  iss_blocks : rc_blocks c' = rc_blocks c;
  iss_parent_blocks : rc_parent_blocks c' = rc_parent_blocks c;
  iss_chain : rc_chain c' = rc_chain c;
  iss_extending : rc_extending c' = rc_extending c;
  iss_cur_block : rc_cur_block c' = rc_cur_block c;
  iss_cur_defs : rc_cur_defs c' = rc_cur_defs c;
  iss_depth : rc_depth c' = rc_depth c;
  iss_in_parent_call : rc_in_parent_call c' = rc_in_parent_call c;
  iss_sandboxed : rc_sandboxed c' = rc_sandboxed c;
  iss_last_loaded : rc_last_loaded c' = rc_last_loaded c;
  iss_tpl : rc_tpl c' = rc_tpl c
}.

(* ---------------------------------------------------------------- an executable instance *)
Definition inc_has {A} (l : list (bytes * A)) (k : bytes) : bool :=
  match assoc_bytes l k with Some _ => true | None => false end.

(* every variable a context can read, nearest definition first, one entry per name *)
Fixpoint inc_flat_vars (c : rctx) : list (bytes * value) :=
  rc_vars c ++
  filter (fun kv => negb (inc_has (rc_vars c) (fst kv)))
         (match rc_parent c with Some p => inc_flat_vars p | None => [] end).
Fixpoint inc_flat_macros (c : rctx) : list (bytes * (bytes * bytes)) :=
  rc_macros c ++
  filter (fun kv => negb (inc_has (rc_macros c) (fst kv)))
         (match rc_parent c with Some p => inc_flat_macros p | None => [] end).

Definition inc_override (base : list (bytes * value)) (ws : list (bytes * value)) : list (bytes * value) :=
  fold_left (fun acc kv => rc_assoc_set acc (fst kv) (snd kv)) ws base.

Definition inc_visible_vars (only : bool) (c : rctx) (ws : list (bytes * value)) : list (bytes * value) :=
  inc_override (if only then [] else inc_flat_vars c) ws.

Definition inc_spec_start (only sb : bool) (c : rctx) (name : bytes) (ws : list (bytes * value)) : rctx :=
  MkRc (inc_visible_vars only c ws) None
       (if only || sb then [] else inc_flat_macros c)
       (if only || sb then [] else rc_blocks c)
       [] None false None [] 0 false (rc_sandboxed c || sb) (Some name) name.

Definition inc_spec_exec (ev : rctx -> expr -> ev_res) (root : rctx -> list node -> ev_rres) (env : ev_env) (c : rctx)
                         (e : expr) (withs : option expr) (ignore_missing only sb : bool) : ev_rres :=
  ev_rexpr (ev_load ev env c e) c (fun nl =>
    match snd nl with
    | None => if ignore_missing then ev_rret [] c else ev_rfail (Err ENotFound) c
    | Some inodes =>
      match inc_with_exprs withs with
      | None => ev_rfail Unmodelled c
      | Some kvs =>
        if sb && inc_no_policy env then ev_rfail (Err EOther) c
        else
          ev_rexpr (inc_with_values (ev c) kvs) c (fun ws =>
            let '(r, _, t) := root (inc_spec_start only sb c (fst nl) ws) inodes in (r, c, t))
      end
    end).

(* the renderer with the include node replaced by the executable instance of its specification *)
Definition c11_node (ev : rctx -> expr -> ev_res) (rend root : rctx -> list node -> ev_rres) (env : ev_env)
                    (c : rctx) (n : node) : ev_rres :=
  match n with
  | NInclude e withs ign only sb => inc_spec_exec ev root env c e withs ign only sb
  | _ => render_node ev rend root env c n
  end.

Fixpoint c11_render (fuel : nat) (env : ev_env) (c : rctx) (ns : list node) {struct fuel} : ev_rres :=
  match fuel with
  | O => (OutOfFuel, c, [])
  | S fu =>
    match ns with
    | [] => ev_rret [] c
    | n :: rest =>
      ev_rseq (c11_node (eval fu env) (c11_render fu env) (c11_render_root fu env) env c n)
              (fun c1 => c11_render fu env c1 rest)
    end
  end
with c11_render_root (fuel : nat) (env : ev_env) (c : rctx) (ns : list node) {struct fuel} : ev_rres :=
  match fuel with
  | O => (OutOfFuel, c, [])
  | S fu => ev_root (eval fu env) (c11_render fu env) (c11_render_root fu env) env c ns
  end.

Definition c11_render_template (fuel : nat) (env : ev_env) (name : bytes) (vars : list (bytes * value)) : outcome bytes * ev_trace :=
  match ts_lookup env name with
  | None => (Err ENotFound, [TrLoad name])
  | Some ns =>
    let c := rc_derive (rc_fresh vars name) None false (Some name) in
    let '(r, _, t) := c11_render_root fuel env c ns in (r, TrLoad name :: t)
  end.
