(* C16, declarative side: which records the wire format of compiled.go can carry.
   A record is representable when each of its three byte fields is shorter than 2^32 bytes (the
   length prefixes are uint32) and both timestamps are int64 values (always true of a Go int64;
   the model uses Z). *)
From Twig Require Import Base.Bytes Model.Compiled.
From Coq Require Import NArith ZArith.
Local Open Scope N_scope.

Definition i64_range (z : Z) : Prop := (- 9223372036854775808 <= z < 9223372036854775808)%Z.

Definition wf_compiled (c : compiled) : Prop :=
  lenN (c_name c) < two32 /\ lenN (c_source c) < two32 /\ lenN (c_ast c) < two32 /\
  i64_range (c_last_modified c) /\ i64_range (c_compile_time c).

(* at least one field of 4 GiB or more *)
Definition oversize (c : compiled) : Prop :=
  two32 <= lenN (c_name c) \/ two32 <= lenN (c_source c) \/ two32 <= lenN (c_ast c).
