(* What C02 says, in terms of the interleaving machine of Model/Sched.v. No proofs in this file. *)
From Twig Require Import Base.Bytes Model.Sched.

(* ---- the hypothesis made explicit: every name has one source throughout the workload ----
   A registration made while configuring agrees with what the loaders have for that name (when they have it)
   and its source parses (RegisterString of a text that does not parse stores nothing); a RegisterString
   made during the workload registers the source the name already has. Without this no engine short of a
   global lock is serialisable: a render may load a, another call re-register a with a different text, and the
   first render include a again. *)
Definition sc_world_ok (w : sc_world) : Prop :=
  (forall n s, In (n, s) (w_reg w) -> sc_src_of w n = Some s /\ sc_parse s <> None /\ assoc_bytes (w_regt w) n = None) /\
  (forall n s, In (n, s) (w_regt w) -> sc_src_of w n = Some s /\ sc_parse s <> None).

(* a RegisterString during the workload registers the source the name already has, and not under a name that
   holds a template registered without a name (its Template.name would change from empty to the name) *)
Definition sc_call_consistent (w : sc_world) (c : sc_call) : Prop :=
  match c with ScCRegister n s => sc_src_of w n = Some s /\ assoc_bytes (w_regt w) n = None | _ => True end.

Definition sc_consistent_sources (w : sc_world) (threads : list (list sc_call)) : Prop :=
  sc_world_ok w /\ Forall (Forall (sc_call_consistent w)) threads.

(* ---- every step a program can ever take satisfies P, whatever answers it gets ---- *)
Inductive sc_prog_all {R : Type} (P : sc_op -> Prop) : sc_prog R -> Prop :=
| ScAllRet (r : R) : sc_prog_all P (ScRet r)
| ScAllStep (op : sc_op) (k : sc_resp -> sc_prog R) :
    P op -> (forall a, sc_prog_all P (k a)) -> sc_prog_all P (ScStep op k).

(* the step does not touch the engine-wide current-template cell *)
Definition sc_op_no_cell (op : sc_op) : Prop :=
  match op with ScOpCellRead | ScOpCellWrite _ => False | _ => True end.

(* ---- data-race freedom of the model: conflicting steps hold a common lock, one of them exclusively ---- *)
Definition sc_race_free_pair (a b : sc_op) : Prop :=
  sc_conflict a b = true -> sc_common_lock a b = true.
