(* Reference evaluator for the fragment property C08 names: integers, booleans and strings under
   exact integer arithmetic within +-2^53, numeric comparison, concatenation, and / or with
   short circuit, the conditional operator, not and the unary signs. It says what an expression tree
   MEANS, independently of the parser and of the engine's evaluator; everything outside the fragment
   is Unmodelled (never compared). Variables are bound to values of Model/Value.v. *)
From Twig Require Import Base.Bytes Model.Ast Model.Value.

Definition spec_env := list (bytes * value).

Definition spec_bound : Z := 9007199254740992%Z.      (* 2^53 *)
Definition spec_in_range (z : Z) : bool := ((- spec_bound <=? z) && (z <=? spec_bound))%Z.
Definition spec_int (z : Z) : outcome value := if spec_in_range z then Ok (VInt z) else Unmodelled.

(* ---- text form: what a print tag shows ---- *)
Definition spec_digit (n : N) : byte :=
  match Byte.of_N (48 + n) with Some b => b | None => x30 end.
Fixpoint spec_dec_fuel (f : nat) (n : N) : bytes :=
  match f with
  | 0 => [spec_digit (n mod 10)]
  | S f' => if (n <? 10)%N then [spec_digit n] else spec_dec_fuel f' (n / 10) ++ [spec_digit (n mod 10)]
  end.
Definition spec_dec (n : N) : bytes := spec_dec_fuel (N.to_nat (N.log2 n)) n.
Definition spec_show_int (z : Z) : bytes :=
  if (z <? 0)%Z then x2d :: spec_dec (Z.to_N (- z)) else spec_dec (Z.to_N z).
Definition spec_show (v : value) : option bytes :=
  match v with
  | VInt z => Some (spec_show_int z)
  | VBool true => Some b#"true"
  | VBool false => Some b#"false"
  | VStr s => Some s
  | _ => None
  end.

(* ---- truth value: false, 0 and the empty string are false. The one-character string 0 is left
   out (Twig's reference semantics calls it false, the engine calls it true; the property does not
   say) ---- *)
Definition spec_truthy (v : value) : option bool :=
  match v with
  | VBool b => Some b
  | VInt z => Some (negb (z =? 0)%Z)
  | VStr s => if bytes_eqb s b#"0" then None else Some (match s with [] => false | _ => true end)
  | _ => None
  end.

(* a string that no number syntax can begin: equality of two such strings is equality of bytes *)
Definition spec_plain_str (s : bytes) : bool :=
  match s with
  | [] => true
  | c :: _ => negb (existsb (Byte.eqb c) b#"+-.0123456789iInN")
  end.

Fixpoint spec_suffixb (p s : bytes) : bool :=
  bytes_eqb p s || match s with [] => false | _ :: r => spec_suffixb p r end.

Definition spec_pow_limit : Z := 64%Z.

Definition spec_arith (o : binop) (a b : Z) : outcome value :=
  match o with
  | BAdd => spec_int (a + b)
  | BSub => spec_int (a - b)
  | BMul => spec_int (a * b)
  | BDiv => if (b =? 0)%Z then Err EOther
            else if (Z.rem a b =? 0)%Z then spec_int (Z.quot a b) else Unmodelled
  | BMod => if (b =? 0)%Z then Err EOther else spec_int (Z.rem a b)
  | BPow => if ((b <? 0) || (spec_pow_limit <? b))%Z then Unmodelled else spec_int (Z.pow a b)
  | _ => Unmodelled
  end.

Definition spec_compare (o : binop) (a b : Z) : outcome value :=
  match o with
  | BLt => Ok (VBool (a <? b)%Z)
  | BGt => Ok (VBool (b <? a)%Z)
  | BLe => Ok (VBool (a <=? b)%Z)
  | BGe => Ok (VBool (b <=? a)%Z)
  | _ => Unmodelled
  end.

(* strings that spell whole numbers compare as the numbers they spell: a canonical decimal numeral is "0" or a
   non-zero digit followed by digits, with an optional minus in front, of at most 15 digits *)
Definition spec_digitval (b : byte) : option Z :=
  let n := Z.of_N (byte_to_N b) in if ((48 <=? n) && (n <=? 57))%Z then Some (n - 48)%Z else None.
Fixpoint spec_numdigits (acc : Z) (s : bytes) : option Z :=
  match s with
  | [] => Some acc
  | b :: r => match spec_digitval b with Some d => spec_numdigits (acc * 10 + d)%Z r | None => None end
  end.
Definition spec_unsigned_numeral (s : bytes) : option Z :=
  match s with
  | [] => None
  | b :: r =>
      if (15 <? length s)%nat then None
      else match spec_digitval b with
           | Some 0%Z => match r with [] => Some 0%Z | _ => None end       (* no leading zeros *)
           | Some _ => spec_numdigits 0 s
           | None => None
           end
  end.
Definition spec_numeral (s : bytes) : option Z :=
  match s with
  | b :: r =>
      if (byte_to_N b =? 45)%N
      then match spec_unsigned_numeral r with Some 0%Z => None | Some z => Some (- z)%Z | None => None end
      else spec_unsigned_numeral s
  | [] => None
  end.
Definition spec_num (v : value) : option Z :=
  match v with
  | VInt z => Some z
  | VStr s => spec_numeral s
  | _ => None
  end.

Definition spec_equal (a b : value) : option bool :=
  match a, b with
  | VInt x, VInt y => Some (x =? y)%Z
  | VBool x, VBool y => Some (Bool.eqb x y)
  | VStr x, VStr y => if spec_plain_str x && spec_plain_str y then Some (bytes_eqb x y) else None
  | _, _ => None
  end.

(* membership in a list: defined when the left operand can be compared (spec_equal) with every element *)
Fixpoint spec_member (a : value) (xs : list value) : option bool :=
  match xs with
  | [] => Some false
  | x :: r => match spec_equal a x, spec_member a r with
              | Some e, Some m => Some (e || m)
              | _, _ => None
              end
  end.

Definition spec_binop (o : binop) (a b : value) : outcome value :=
  match o with
  | BIn => match b with
           | VList _ xs => match spec_member a xs with Some r => Ok (VBool r) | None => Unmodelled end
           | _ => Unmodelled
           end
  | BNotIn => match b with
              | VList _ xs => match spec_member a xs with Some r => Ok (VBool (negb r)) | None => Unmodelled end
              | _ => Unmodelled
              end
  | BAdd | BSub | BMul | BDiv | BMod | BPow =>
      match a, b with VInt x, VInt y => spec_arith o x y | _, _ => Unmodelled end
  | BLt | BGt | BLe | BGe =>
      match spec_num a, spec_num b with Some x, Some y => spec_compare o x y | _, _ => Unmodelled end
  | BEq => match spec_equal a b with Some r => Ok (VBool r) | None => Unmodelled end
  | BNe => match spec_equal a b with Some r => Ok (VBool (negb r)) | None => Unmodelled end
  | BConcat => match spec_show a, spec_show b with
               | Some x, Some y => Ok (VStr (x ++ y))
               | _, _ => Unmodelled
               end
  | BStartsWith => match a, b with VStr x, VStr y => Ok (VBool (prefixb y x)) | _, _ => Unmodelled end
  | BEndsWith => match a, b with VStr x, VStr y => Ok (VBool (spec_suffixb y x)) | _, _ => Unmodelled end
  | _ => Unmodelled
  end.

Definition spec_simple (v : value) : bool :=
  match v with
  | VInt z => spec_in_range z
  | VBool _ => true
  | VStr s => spec_plain_str s
  | _ => false
  end.

Definition spec_lookup (env : spec_env) (x : bytes) : outcome value :=
  match assoc_bytes env x with
  | Some (VInt z) => spec_int z
  | Some (VBool b) => Ok (VBool b)
  | Some (VStr s) => Ok (VStr s)
  | Some (VList t xs) => if forallb spec_simple xs then Ok (VList t xs) else Unmodelled   (* only as the right operand of in / not in *)
  | _ => Unmodelled
  end.

(* the elements of an array literal, left to right; each must be a simple value *)
Definition spec_list (f : expr -> outcome value) : list expr -> outcome (list value) :=
  fix go (l : list expr) : outcome (list value) :=
    match l with
    | [] => Ok []
    | x :: r =>
        match f x with
        | Ok v =>
            if spec_simple v then
              match go r with
              | Ok vs => Ok (v :: vs)
              | Err c => Err c
              | OutOfFuel => OutOfFuel
              | Unmodelled => Unmodelled
              end
            else Unmodelled
        | Err c => Err c
        | OutOfFuel => OutOfFuel
        | Unmodelled => Unmodelled
        end
    end.

Fixpoint spec_eval (env : spec_env) (e : expr) : outcome value :=
  match e with
  | ELit (LInt z) => spec_int z
  | ELit (LBool b) => Ok (VBool b)
  | ELit (LStr s) => Ok (VStr s)
  | ELit LNull => Unmodelled
  | EVar x => spec_lookup env x
  | EUn o a =>
      match spec_eval env a with
      | Ok v =>
          match o with
          | UNot => match spec_truthy v with Some t => Ok (VBool (negb t)) | None => Unmodelled end
          | UNeg => match v with VInt z => spec_int (- z) | _ => Unmodelled end
          | UPos => match v with VInt z => Ok (VInt z) | _ => Unmodelled end
          end
      | r => r
      end
  | EBin BAnd l r =>
      match spec_eval env l with
      | Ok vl =>
          match spec_truthy vl with
          | Some false => Ok (VBool false)                         (* the right operand is not evaluated *)
          | Some true =>
              match spec_eval env r with
              | Ok vr => match spec_truthy vr with Some t => Ok (VBool t) | None => Unmodelled end
              | x => x
              end
          | None => Unmodelled
          end
      | x => x
      end
  | EBin BOr l r =>
      match spec_eval env l with
      | Ok vl =>
          match spec_truthy vl with
          | Some true => Ok (VBool true)
          | Some false =>
              match spec_eval env r with
              | Ok vr => match spec_truthy vr with Some t => Ok (VBool t) | None => Unmodelled end
              | x => x
              end
          | None => Unmodelled
          end
      | x => x
      end
  | EBin o l r =>
      match spec_eval env l with
      | Ok vl => match spec_eval env r with
                 | Ok vr => spec_binop o vl vr
                 | x => x
                 end
      | x => x
      end
  | ECond c t f =>
      match spec_eval env c with
      | Ok vc =>
          match spec_truthy vc with
          | Some true => spec_eval env t                           (* exactly one branch *)
          | Some false => spec_eval env f
          | None => Unmodelled
          end
      | x => x
      end
  | EArr es =>                                                     (* only ever the right operand of in / not in *)
      match spec_list (spec_eval env) es with
      | Ok vs => Ok (VList LAny vs)
      | Err c => Err c
      | OutOfFuel => OutOfFuel
      | Unmodelled => Unmodelled
      end
  | _ => Unmodelled
  end.

(* the text a print tag shows for the expression, when the spec defines it *)
Definition spec_print (env : spec_env) (e : expr) : outcome bytes :=
  match spec_eval env e with
  | Ok v => match spec_show v with Some s => Ok s | None => Unmodelled end
  | Err x => Err x
  | OutOfFuel => OutOfFuel
  | Unmodelled => Unmodelled
  end.

(* ---- negative zero: the engine computes in binary64, where 0 * -1, -0, 0 / -5 and -4 % 2 are the
   negative zero, which it prints as -0. The spec says 0. This predicate recognises the evaluations
   that meet such a zero, so that the generators can route them to their own stream. ---- *)
Fixpoint spec_negzero_hazard (env : spec_env) (e : expr) : bool :=
  match e with
  | EUn o a =>
      spec_negzero_hazard env a ||
      match o, spec_eval env a with UNeg, Ok (VInt z) => (z =? 0)%Z | _, _ => false end
  | EBin o l r =>
      spec_negzero_hazard env l || spec_negzero_hazard env r ||
      match spec_eval env l, spec_eval env r with
      | Ok (VInt a), Ok (VInt b) =>
          match o with
          | BMul => (((a =? 0) && (b <? 0)) || ((b =? 0) && (a <? 0)))%Z
          | BDiv => ((a =? 0) && (b <? 0))%Z
          | BMod => ((a <? 0) && negb (b =? 0) && (Z.rem a b =? 0))%Z
          | _ => false
          end
      | _, _ => false
      end
  | ECond c t f => spec_negzero_hazard env c || spec_negzero_hazard env t || spec_negzero_hazard env f
  | _ => false
  end.
