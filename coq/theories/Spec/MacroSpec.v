(* C12 -- what calling a macro means, declaratively (the operational side is Model/Eval.v: ev_bind_params,
   ev_call_macro, ev_print, the ECall / EModCall cases of ev_expr, ev_import, ev_from).

   BINDING. Parameter number i (from 0) of the signature is bound to
     argument i                         when the call has more than i arguments,
     its default expression's value     otherwise, when it has one -- evaluated in the CALLER's context,
     null                               otherwise;
   arguments beyond the last parameter are ignored. Defaults of missing arguments are evaluated left to right;
   the first one that fails ends the call with its error.

   SCOPE OF THE BODY. The body is rendered in a NEW context whose own variables are exactly the bindings and
   whose parent is the caller's context (Go: macroCtx.parent = ctx). Through the parent chain the body reads
   everything the caller can read -- its variables and the variables of its own parents (dynamic scoping) --
   except where a parameter of the same name hides it. Macros: the body sees the macros of its OWN template first
   (all of them, wherever their tags stand), then the macros the caller sees (GetMacro walks the same chain); a
   name that is a variable of the context itself (a parameter, a variable the body has set) denotes the variable
   even when a macro of that name is visible. (GetVariable looks at the engine's globals between a context's own variables and its parent; the
   model has no globals, see Model/Ctx.v.) Nothing the body does is written into the caller's context: set, for variables and loop,
   macro definitions, import and from inside the body all write the new context, which is dropped.

   REACHING A MACRO. A call expression is one of five forms; each evaluates, in a context where it resolves
   to the definition (template, name), to the same closure over the evaluated arguments, and a print tag runs
   that closure in the context the print tag stands in. So the output of a call is c12_call of the caller's
   context, the definition reached and the argument values, whatever the form.

   No proofs here. *)
From Twig Require Import Base.Bytes Model.Ast Model.Value Model.ValueOps Model.Ctx Model.TemplateSet Model.Eval.

(* ---------------------------------------------------------------- binding *)
(* the value of parameter number i with default d, for the argument list args *)
Definition c12_arg_or_default (evc : expr -> ev_res) (args : list value) (i : nat) (d : option expr) : ev_res :=
  match nth_error args i with
  | Some a => ev_ret a
  | None => match d with Some de => evc de | None => ev_ret VNull end
  end.

(* the bindings of the parameters from number i on, in order *)
Fixpoint c12_param_values (evc : expr -> ev_res) (args : list value) (i : nat) (params : list (bytes * option expr))
  : outcome (list (bytes * value)) * ev_trace :=
  match params with
  | [] => ev_ret []
  | (p, d) :: rest =>
    ev_bind (c12_arg_or_default evc args i d) (fun v =>
    ev_bind (c12_param_values evc args (S i) rest) (fun vs => ev_ret ((p, v) :: vs)))
  end.

(* the context a macro body starts from, before any binding: no variables, no blocks; as macros those of the
   template that defines the macro (every macro tag of that template, wherever it stands: linkMacros); the caller
   as parent; sandbox flag and last loaded template inherited *)
Definition c12_body_ctx0 (env : ev_env) (c : rctx) (tpl : bytes) : rctx :=
  rc_with_macros (rc_derive (rc_fresh [] tpl) (Some c) (rc_sandboxed c) (rc_last_loaded c)) (ts_sibling_macros env tpl).

Definition c12_bind_all (mc : rctx) (bs : list (bytes * value)) : rctx :=
  fold_left (fun m pv => rc_set_var m (fst pv) (snd pv)) bs mc.

(* the scope of the body *)
Definition c12_macro_ctx (env : ev_env) (c : rctx) (tpl : bytes) (bs : list (bytes * value)) : rctx :=
  c12_bind_all (c12_body_ctx0 env c tpl) bs.

(* with a repeated parameter name the last binding is the one the body reads *)
Fixpoint c12_last_binding (bs : list (bytes * value)) (p : bytes) : option value :=
  match bs with
  | [] => None
  | (q, v) :: r =>
    match c12_last_binding r p with
    | Some w => Some w
    | None => if bytes_eqb q p then Some v else None
    end
  end.

(* a call of macro (tpl, name) with argument values args from context c: output and trace; the caller's
   context does not occur in the result: there is nothing to give back *)
Definition c12_call (ev : rctx -> expr -> ev_res) (rend : rctx -> list node -> ev_rres) (env : ev_env)
                    (c : rctx) (tpl name : bytes) (args : list value) : outcome bytes * ev_trace :=
  match ts_find_macro env tpl name with
  | None => (Unmodelled, [])
  | Some (params, body) =>
    if existsb vo_has_callable args || negb (ev_macro_body_plain body) then (Unmodelled, [])
    else
      ev_bind (c12_param_values (ev c) args 0 params) (fun bs =>
        let '(r, _, t) := rend (c12_macro_ctx env c tpl bs) body in (r, t))
  end.

(* ---------------------------------------------------------------- the renderer with calls by the rule above *)
Definition c12_print (ev : rctx -> expr -> ev_res) (rend : rctx -> list node -> ev_rres) (env : ev_env)
                     (c : rctx) (e : expr) : ev_rres :=
  ev_rexpr (ev c e) c (fun v =>
    match vo_view v with
    | KCallable tpl nm args => let '(r, t) := c12_call ev rend env c tpl nm args in (r, c, t)
    | KParent => ev_parent_call rend c
    | _ => match vo_to_str v with Some s => ev_rret s c | None => ev_rfail Unmodelled c end
    end).

Definition c12_node (ev : rctx -> expr -> ev_res) (rend root : rctx -> list node -> ev_rres) (env : ev_env)
                    (c : rctx) (n : node) : ev_rres :=
  match n with
  | NPrint e => c12_print ev rend env c e
  | _ => render_node ev rend root env c n
  end.

Fixpoint c12_render (fuel : nat) (env : ev_env) (c : rctx) (ns : list node) {struct fuel} : ev_rres :=
  match fuel with
  | O => (OutOfFuel, c, [])
  | S fu =>
    match ns with
    | [] => ev_rret [] c
    | n :: rest =>
      ev_rseq (c12_node (eval fu env) (c12_render fu env) (c12_render_root fu env) env c n)
              (fun c1 => c12_render fu env c1 rest)
    end
  end
with c12_render_root (fuel : nat) (env : ev_env) (c : rctx) (ns : list node) {struct fuel} : ev_rres :=
  match fuel with
  | O => (OutOfFuel, c, [])
  | S fu => ev_root (eval fu env) (c12_render fu env) (c12_render_root fu env) env c ns
  end.

Definition c12_render_template (fuel : nat) (env : ev_env) (name : bytes) (vars : list (bytes * value)) : outcome bytes * ev_trace :=
  match ts_lookup env name with
  | None => (Err ENotFound, [TrLoad name])
  | Some ns =>
    let c := rc_derive (rc_fresh vars name) None false (Some name) in
    let '(r, _, t) := c12_render_root fuel env c ns in (r, TrLoad name :: t)
  end.

(* ---------------------------------------------------------------- the five ways of reaching a macro *)
Inductive c12_form :=
| FLocal (m : bytes)        (* m(args) in the defining template *)
| FSelf (m : bytes)         (* _self.m(args) *)
| FImport (x m : bytes)     (* import t as x, then x.m(args) *)
| FFrom (m : bytes)         (* from t import m, then m(args) *)
| FAlias (y : bytes).       (* from t import m as y, then y(args) *)

Definition c12_self : bytes := b#"_self".

Definition c12_form_expr (f : c12_form) (args : list expr) : expr :=
  match f with
  | FLocal m => ECall m args
  | FSelf m => EModCall (EVar c12_self) m args
  | FImport x m => EModCall (EVar x) m args
  | FFrom m => ECall m args
  | FAlias y => ECall y args
  end.

(* the name x read as a variable does not denote a macro: the context itself holds x, or no macro x is visible *)
Definition c12_reads_variable (c : rctx) (x : bytes) : Prop := ev_var_macro c x = None.

(* the module map an import binds: name -> macro value, in the order of the imported context's macro table *)
Definition c12_module_of (ms : list (bytes * (bytes * bytes))) : value :=
  VMap MAny (map (fun m => (VStr (fst m), VMacro (fst (snd m)) (snd (snd m)))) ms).

(* what the caller's context must hold for the form to reach the definition (tpl, nm) *)
Definition c12_reaches (env : ev_env) (c : rctx) (f : c12_form) (tpl nm : bytes) : Prop :=
  match f with
  | FLocal m | FFrom m | FAlias m => rc_get_macro c m = Some (tpl, nm)
  | FSelf m =>
    (* _self is not bound: the module expression is nil and the call falls back to a lookup by name, macros first *)
    c12_reads_variable c c12_self /\ rc_get_var c c12_self = VNull /\ rc_get_macro c m = Some (tpl, nm)
  | FImport x m =>
    c12_reads_variable c x /\ rc_hack_name x = false /\
    exists kvs, rc_get_var c x = VMap MAny kvs /\ vo_map_find kvs (VStr m) = Some (VMacro tpl nm)
  end.

(* the names a form looks up in the caller's context *)
Definition c12_form_names (f : c12_form) : list bytes :=
  match f with
  | FLocal m | FFrom m | FAlias m => [m]
  | FSelf m => [c12_self; m]
  | FImport x _ => [x]
  end.

(* ---------------------------------------------------------------- where a call may stand *)
(* the context a call site inside a construct is rendered in, derived from the context c of the construct *)
Inductive c12_site :=
| SLoop (k : option bytes) (v : bytes) (n i : Z) (item : value * value)         (* iteration i of n of a for loop *)
| SBlock (name : option bytes) (defs : list blockdef) (depth : nat) (tpl : bytes) (* the body of a block *)
| SInclude (name : bytes)                                                        (* a template included without only / sandboxed *)
| SMacro (tpl : bytes) (bs : list (bytes * value)).                              (* the body of another macro *)

Definition c12_include_ctx (c : rctx) (name : bytes) : rctx :=
  let base := rc_clone c in
  MkRc (rc_vars base) (rc_parent base) (rc_macros base) (rc_blocks base) (rc_parent_blocks base) (rc_chain base)
       (rc_extending base) (rc_cur_block base) (rc_cur_defs base) (rc_depth base) (rc_in_parent_call base)
       (rc_sandboxed base) (Some name) name.

Definition c12_site_ctx (env : ev_env) (c : rctx) (s : c12_site) : rctx :=
  match s with
  | SLoop k v n i item => ev_iter_ctx c k v n i item
  | SBlock name defs depth tpl => rc_with_current c name defs depth tpl
  | SInclude name => c12_include_ctx c name
  | SMacro tpl bs => c12_macro_ctx env c tpl bs
  end.

(* the variable names the construct binds in that context *)
Definition c12_site_binds (s : c12_site) : list bytes :=
  match s with
  | SLoop k v _ _ _ => b#"loop" :: v :: match k with Some kv => [kv] | None => [] end
  | SBlock _ _ _ _ => []
  | SInclude _ => []
  | SMacro _ bs => map fst bs
  end.

Definition c12_disjoint (a b : list bytes) : Prop := forall x, In x a -> In x b -> False.

(* the macros a construct makes visible by itself: the body of a macro sees the macros of its template *)
Definition c12_site_macros (env : ev_env) (s : c12_site) : list (bytes * (bytes * bytes)) :=
  match s with SMacro tpl _ => ts_sibling_macros env tpl | _ => [] end.
(* the construct does not capture the names the form looks up: the macro name is not among the construct's own
   macros, or denotes the same definition there; the variable of x.m / _self is not among them *)
Definition c12_site_keeps (env : ev_env) (s : c12_site) (f : c12_form) (tpl nm : bytes) : Prop :=
  let sib := c12_site_macros env s in
  let same (m : bytes) := assoc_bytes sib m = None \/ assoc_bytes sib m = Some (tpl, nm) in
  match f with
  | FLocal m | FFrom m | FAlias m => same m
  | FSelf m => assoc_bytes sib c12_self = None /\ same m
  | FImport x _ => assoc_bytes sib x = None
  end.

(* ---------------------------------------------------------------- the tag that declares a macro, as tokens *)
(* parse_macro.go has a second declaration parser for a NAME token that contains an opening parenthesis
   (name and parameter list in one token). What follows the tag name of a macro tag is tokenised by
   TokenizeExpression (Model/ExprLexer.v xl_lex); the second parser is taken when the first token is such a NAME. *)
From Twig Require Import Model.ExprLexer.
Definition c12_lparen : byte := x28.
Definition c12_takes_combined_path (toks : list xtok) : bool :=
  match toks with
  | XT XName v :: _ => existsb (Byte.eqb c12_lparen) v
  | _ => false
  end.

(* ---------------------------------------------------------------- the five paths as five templates *)
(* For macro definitions D (the nodes of a library template), a macro name m and argument expressions: the
   library, and five main templates that reach m(args) in the five ways. local and self ARE the defining
   template (the definitions followed by the call); the other three import the library. *)
Definition c12_lib_name : bytes := b#"lib".
Definition c12_five_env (D : list node) (m : bytes) (args : list expr) : ev_env :=
  let lib := ELit (LStr c12_lib_name) in
  MkEnv [ (c12_lib_name, D);
          (b#"local", D ++ [NPrint (c12_form_expr (FLocal m) args)]);
          (b#"self", D ++ [NPrint (c12_form_expr (FSelf m) args)]);
          (b#"import", [NImport lib b#"x"; NPrint (c12_form_expr (FImport b#"x" m) args)]);
          (b#"from", [NFrom lib [(m, m)]; NPrint (c12_form_expr (FFrom m) args)]);
          (b#"alias", [NFrom lib [(m, b#"y")]; NPrint (c12_form_expr (FAlias b#"y") args)]) ]
        [] [] [] None.
Definition c12_five_out (fuel : nat) (D : list node) (m : bytes) (args : list expr) (vars : list (bytes * value)) (main : bytes)
  : outcome bytes :=
  fst (render_template fuel (c12_five_env D m args) main vars).

(* ---------------------------------------------------------------- self-contained macros and callers that agree *)
(* The body of a macro reads its caller's context (dynamic scoping), so "the same output however it is reached"
   can only hold relative to what the body looks up. The names an expression looks up in the context: variables it
   reads and names it calls (a call looks the name up among the macros first). *)
Section MacroFrame.
  Variable N : list bytes.
  Definition c12_in (x : bytes) : bool := ev_mem x N.

  Fixpoint c12_eok (e : expr) : bool :=
    match e with
    | ELit _ => true
    | EVar x => c12_in x
    | EAttr o _ => c12_eok o
    | EItem o i => c12_eok o && c12_eok i
    | EUn _ a => c12_eok a
    | EBin _ a b => c12_eok a && c12_eok b
    | ECond q a b => c12_eok q && c12_eok a && c12_eok b
    | EArr es => forallb c12_eok es
    | EHash kvs => forallb (fun kv => match kv with (k, x) => c12_eok k && c12_eok x end) kvs
    | EFilter o _ args => c12_eok o && forallb c12_eok args
    | ECall f args => c12_in f && forallb c12_eok args
    | EModCall m f args => c12_eok m && c12_in f && forallb c12_eok args
    | ETest a _ args _ => c12_eok a && forallb c12_eok args
    end.

  (* self-contained nodes: text, print, do, set, if, for, apply, spaceless over such expressions; no tag that
     loads a template, no block, no macro tag *)
  Fixpoint c12_nok (n : node) : bool :=
    let fix go (l : list node) : bool := match l with [] => true | x :: r => c12_nok x && go r end in
    match n with
    | NText _ | NVerbatim _ => true
    | NPrint e | NDo e => c12_eok e
    | NSet _ e => c12_eok e
    | NIf brs els =>
      (fix gob (l : list (expr * list node)) : bool :=
         match l with [] => true | (c, b) :: r => c12_eok c && go b && gob r end) brs
      && match els with Some b => go b | None => true end
    | NFor _ _ seq body els => c12_eok seq && go body && match els with Some b => go b | None => true end
    | NApply _ args body => forallb c12_eok args && go body
    | NSpaceless body => go body
    | _ => false
    end.
  Definition c12_nsok (ns : list node) : bool := forallb c12_nok ns.

  Definition c12_params_ok (params : list (bytes * option expr)) : bool :=
    forallb (fun pd => match snd pd with Some de => c12_eok de | None => true end) params.

  (* every macro of every template of the environment is self-contained over the names N *)
  Definition c12_env_ok (env : ev_env) : Prop :=
    forall tpl nm params body, ts_find_macro env tpl nm = Some (params, body) ->
      c12_params_ok params = true /\ c12_nsok body = true.

  (* two contexts that answer alike for the names N: same variables (also for is defined, which asks whether the
     context itself holds the name), same macros; and the same sandbox flag *)
  Definition c12_owns (c : rctx) (x : bytes) : bool := match rc_own_var c x with Some _ => true | None => false end.
  Definition c12_agree (c1 c2 : rctx) : Prop :=
    rc_sandboxed c1 = rc_sandboxed c2 /\
    forall x, c12_in x = true ->
      rc_get_var c1 x = rc_get_var c2 x /\ rc_get_macro c1 x = rc_get_macro c2 x /\ c12_owns c1 x = c12_owns c2 x.

  (* the same, except that the two need not agree on the macros named in S: a context that holds the macros S itself
     (the body of a macro holds those of its template) never asks its parent for them *)
  Definition c12_agree_mod (S : list (bytes * (bytes * bytes))) (c1 c2 : rctx) : Prop :=
    rc_sandboxed c1 = rc_sandboxed c2 /\
    forall x, c12_in x = true ->
      rc_get_var c1 x = rc_get_var c2 x /\ c12_owns c1 x = c12_owns c2 x /\
      (assoc_bytes S x = None -> rc_get_macro c1 x = rc_get_macro c2 x).
End MacroFrame.

(* the same, decided: every macro tag of every registered template *)
Definition c12_env_okb (N : list bytes) (env : ev_env) : bool :=
  forallb (fun t => forallb (fun m => c12_params_ok N (fst (snd m)) && c12_nsok N (snd (snd m))) (ts_macros (snd t))) (e_tpls env).

(* the names of N that S does not define *)
Definition c12_minus (N : list bytes) (S : list (bytes * (bytes * bytes))) : list bytes :=
  filter (fun x => match assoc_bytes S x with None => true | Some _ => false end) N.
