(* Declarative reading of property C20: what x.name and x[name] denote.  No cache, no lookup tables.
     maps (any element type)         : the value of that key, else empty
     structs and pointers to structs : the exported field of that name, promoted fields included (the
                                       selector rule of the Go language: the shallowest embedding depth
                                       that has a field of that name, and exactly one field there),
                                       else the zero-argument method of that name of the dynamic type,
                                       else empty
     anything else                   : empty *)
From Twig Require Import Base.Bytes Model.AttrCache.

(* fields called [name] directly in a struct: depth 0 *)
Fixpoint attr_spec_top (name : bytes) (i : nat) (fs : attr_flds) : list (attr_path * bool) :=
  match fs with
  | AFNil => []
  | AFCons n e _ r => (if bytes_eqb n name then [([i], e)] else []) ++ attr_spec_top name (S i) r
  end.

(* the results of [f] in every embedded struct, prefixed with the index of the embedded field *)
Fixpoint attr_spec_over_embedded (f : attr_flds -> list (attr_path * bool)) (i : nat) (fs : attr_flds)
  : list (attr_path * bool) :=
  match fs with
  | AFNil => []
  | AFCons _ _ k r =>
      (match k with
       | AKEmbed _ t => map (fun pe => (i :: fst pe, snd pe)) (f (attr_sty_fields t))
       | AKPlain => []
       end) ++ attr_spec_over_embedded f (S i) r
  end.

(* all fields called [name] at embedding depth d: (index path, exported) *)
Fixpoint attr_spec_at (d : nat) (name : bytes) (fs : attr_flds) : list (attr_path * bool) :=
  match d with
  | O => attr_spec_top name 0 fs
  | S d' => attr_spec_over_embedded (attr_spec_at d' name) 0 fs
  end.

(* selector rule: the first depth d, d+1, ... (k depths tried) that has such a field must have exactly one *)
Fixpoint attr_spec_select (k d : nat) (name : bytes) (fs : attr_flds) : option (attr_path * bool) :=
  match k with
  | O => None
  | S k' =>
      match attr_spec_at d name fs with
      | [] => attr_spec_select k' (S d) name fs
      | [m] => Some m
      | _ :: _ :: _ => None
      end
  end.

(* depths 0 .. depth of the type; nothing lies deeper (attr_spec_at_beyond_depth in the proofs) *)
Definition attr_spec_promoted (t : attr_sty) (name : bytes) : option (attr_path * bool) :=
  attr_spec_select (S (attr_sty_depth t)) 0 name (attr_sty_fields t).

(* the value at an index path, going through pointers to embedded structs; none behind a nil pointer *)
Fixpoint attr_spec_value_at (p : attr_path) (v : attr_val) : option attr_val :=
  match p with
  | [] => Some v
  | i :: p' =>
      match (match v with AVPtr u => Some u | AVNilPtr => None | _ => Some v end) with
      | Some (AVStruct _ fv) =>
          match nth_error fv i with
          | Some f => attr_spec_value_at p' f
          | None => None
          end
      | _ => None
      end
  end.

Definition attr_spec_field (t : attr_sty) (fv : list attr_val) (name : bytes) : option attr_val :=
  match attr_spec_promoted t name with
  | Some (p, true) => attr_spec_value_at p (AVStruct t fv)
  | _ => None
  end.

(* the method of that name in the method table of the dynamic type, if it takes no arguments *)
Definition attr_spec_method (t : attr_sty) (fv : list attr_val) (name : bytes) : option attr_val :=
  match find (fun m => bytes_eqb (am_name m) name) (attr_sty_meths t) with
  | Some m => if Nat.eqb (am_nargs m) 0 then Some (attr_call m (AVStruct t fv)) else None
  | None => None
  end.

Definition attr_spec_lookup (a : attr_access) (v : attr_val) (name : bytes) : attr_val :=
  match v with
  | AVMap _ kv => match attr_kv_get kv name with Some x => x | None => AVNil end
  | _ =>
      match a with
      | AIndex => AVNil
      | ADot =>
          match attr_struct_of v with
          | Some (t, fv) =>
              match attr_spec_field t fv name with
              | Some x => x
              | None => match attr_spec_method t fv name with Some x => x | None => AVNil end
              end
          | None => AVNil
          end
      end
  end.

(* Go guarantees that the method names of a type are pairwise different *)
Definition attr_meths_wf (v : attr_val) : Prop :=
  forall t fv, attr_struct_of v = Some (t, fv) -> NoDup (map am_name (attr_sty_meths t)).

(* the input class on which code and specification differ as long as getAttribute has a fast path for
   map[string]interface only: dot access on a map of any other type *)
Definition attr_typed_map_dot (a : attr_access) (v : attr_val) : bool :=
  match a, v with
  | ADot, AVMap false _ => true
  | _, _ => false
  end.
