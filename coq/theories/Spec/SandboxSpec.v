(* C06 -- sandbox confinement: the declarative side.
   A security policy is two lists of names: the filters and the functions it allows. The trace of the evaluator
   model (Model/Ctx.v tr_event) records every invocation of a filter, a function, a test and every template load.
     tr_confined policy trace   every TrFilter / TrFunction event of the trace names an allowed filter / function
     sb_conf policy result      the trace of a rendering result is confined AND the context it hands on is sandboxed
     sb_erase c                 the context c with the sandbox flag cleared, in c and in every parent context
     sb_edich / sb_dich         how the rendering of a sandboxed context relates to the rendering of its erased
                                twin: it fails with the security class, or it is the same rendering
     sb_guard_r / sb_render     the renderers, poisoned on every context that is not sandboxed: used to state that
                                no context below a sandboxed one ever loses the flag
   No proofs here. *)
From Twig Require Import Base.Bytes Model.Ast Model.Value Model.ValueOps Model.Ctx Model.TemplateSet Model.Eval.

(* ---------------------------------------------------------------- policies and traces *)
Definition sb_policy : Type := (list bytes * list bytes)%type.      (* allowed filters, allowed functions *)
Definition sb_filter_ok (p : sb_policy) (f : bytes) : bool := ev_mem f (fst p).
Definition sb_function_ok (p : sb_policy) (f : bytes) : bool := ev_mem f (snd p).

Definition sb_event_ok (p : sb_policy) (ev : tr_event) : bool :=
  match ev with
  | TrFilter f => sb_filter_ok p f
  | TrFunction f => sb_function_ok p f
  | TrTest _ | TrLoad _ => true
  end.

Definition tr_confined (p : sb_policy) (t : ev_trace) : Prop := Forall (fun ev => sb_event_ok p ev = true) t.
Definition tr_confinedb (p : sb_policy) (t : ev_trace) : bool := forallb (sb_event_ok p) t.

(* the events of a trace the policy forbids *)
Definition tr_forbidden (p : sb_policy) (t : ev_trace) : ev_trace := filter (fun ev => negb (sb_event_ok p ev)) t.

(* ---------------------------------------------------------------- results *)
Definition sb_out (r : ev_rres) : outcome bytes := fst (fst r).
Definition sb_ctx (r : ev_rres) : rctx := snd (fst r).
Definition sb_tr (r : ev_rres) : ev_trace := snd r.

(* the invariant of the induction: confined trace, and the context handed on is still sandboxed *)
Definition sb_conf (p : sb_policy) (r : ev_rres) : Prop :=
  tr_confined p (sb_tr r) /\ rc_sandboxed (sb_ctx r) = true.
Definition sb_econf (p : sb_policy) {A} (r : outcome A * ev_trace) : Prop := tr_confined p (snd r).

(* two environments that differ in nothing but the security policy *)
Definition sb_same_but_policy (e1 e2 : ev_env) : Prop :=
  e_tpls e1 = e_tpls e2 /\ e_filters e1 = e_filters e2 /\ e_functions e1 = e_functions e2 /\ e_tests e1 = e_tests e2 /\
  (e_policy e1 = None <-> e_policy e2 = None).

(* ---------------------------------------------------------------- the erased twin of a context *)
Fixpoint sb_erase (c : rctx) : rctx :=
  match c with
  | MkRc vars parent macros blocks pblocks chain ext cb cd depth ipc _ last tpl =>
    MkRc vars (match parent with Some p => Some (sb_erase p) | None => None end)
         macros blocks pblocks chain ext cb cd depth ipc false last tpl
  end.

Definition sb_erase_res (r : ev_rres) : ev_rres := (sb_out r, sb_erase (sb_ctx r), sb_tr r).

(* what the run in a context (rs) and the run in its erased twin (ru) have to do with each other: the first fails
   with the security class, or they are the same run *)
Definition sb_edich {A} (rs ru : outcome A * ev_trace) : Prop :=
  fst rs = Err ESecurity \/ ru = rs.
Definition sb_dich (rs ru : ev_rres) : Prop :=
  sb_out rs = Err ESecurity \/ ru = sb_erase_res rs.

(* ---------------------------------------------------------------- renderers poisoned outside the sandbox *)
Definition sb_poison : tr_event := TrFilter b#"<not sandboxed>".
Definition sb_guard_r (f : rctx -> list node -> ev_rres) (c : rctx) (ns : list node) : ev_rres :=
  if rc_sandboxed c then f c ns else (Unmodelled, c, [sb_poison]).
Definition sb_guard_e (f : rctx -> expr -> ev_res) (c : rctx) (e : expr) : ev_res :=
  if rc_sandboxed c then f c e else (Unmodelled, [sb_poison]).

(* render and render_root with every recursive call guarded: equal to the renderers below a sandboxed context
   exactly if no context without the flag is ever rendered or evaluated in *)
Fixpoint sb_render (fuel : nat) (env : ev_env) (c : rctx) (ns : list node) {struct fuel} : ev_rres :=
  match fuel with
  | O => (OutOfFuel, c, [])
  | S fu =>
    match ns with
    | [] => ev_rret [] c
    | n :: rest =>
      ev_rseq (render_node (sb_guard_e (eval fu env)) (sb_guard_r (sb_render fu env)) (sb_guard_r (sb_render_root fu env)) env c n)
              (fun c1 => sb_guard_r (sb_render fu env) c1 rest)
    end
  end
with sb_render_root (fuel : nat) (env : ev_env) (c : rctx) (ns : list node) {struct fuel} : ev_rres :=
  match fuel with
  | O => (OutOfFuel, c, [])
  | S fu => ev_root (sb_guard_e (eval fu env)) (sb_guard_r (sb_render fu env)) (sb_guard_r (sb_render_root fu env)) env c ns
  end.

(* ---------------------------------------------------------------- a filter or function node with an allowed name *)
Definition sb_names_expr (pol : sb_policy) (e : expr) : bool :=
  match e with
  | EFilter _ f _ => sb_filter_ok pol f
  | ECall f _ | EModCall _ f _ => sb_function_ok pol f
  | _ => true
  end.
