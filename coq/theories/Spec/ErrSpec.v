(* C17, declarative layer: what it means that a failure during rendering surfaces as an error that wraps its cause.

   1. Errors as Go sees them: a tree Leaf sentinel | Wrap e | Opaque. errors.Is walks Unwrap; a wrapper made with
      the verb w (or a type with an Unwrap method, like EnhancedError) keeps its cause reachable, a message made
      from err.Error() does not. The evaluator model carries the CLASS of an error only: ESentinel n stands for
      wraps sentinel n (er_class_sentinel_iff).
   2. Faults. Callbacks are data in the model environment (Ctx.cb_kind). Making the callback (kind, name) fail with
      sentinel s is the environment es_env_fail kind name s env; an unknown name is es_env_without kind name env.
      In the trace of a run, the invocations of that callback are the events es_event kind name.
   3. The statements: es_surfaces (a failing invocation is the last thing that happens and the outcome is its
      error), es_go_result (what Render returns: the empty string with an error).
   (The two sites of the pinned tree that swallowed an error - x.y is defined and the spaceless tag - were repaired
   in /repo: aee56e1, 36660ef; no statement needs a side condition about them.)
   No proofs here beyond the three facts about error trees. *)
From Twig Require Import Base.Bytes Model.Ast Model.Value Model.ValueOps Model.Ctx Model.TemplateSet.

(* ---------------------------------------------------------------- 1. error trees *)
Inductive er_tree :=
| ErLeaf (sentinel : nat)      (* the error value a callback returned *)
| ErWrap (e : er_tree)         (* fmt.Errorf with the verb w, EnhancedError, errors.Join: Unwrap leads to e *)
| ErOpaque.                    (* a new error made from a message: nothing behind it *)

(* errors.Is(e, sentinel s) *)
Fixpoint is_cause (s : nat) (e : er_tree) : bool :=
  match e with
  | ErLeaf s' => Nat.eqb s s'
  | ErWrap e' => is_cause s e'
  | ErOpaque => false
  end.

(* n wrappers around e *)
Fixpoint er_wraps (n : nat) (e : er_tree) : er_tree :=
  match n with O => e | S k => ErWrap (er_wraps k e) end.

(* the class the model carries for an error value *)
Fixpoint er_class (e : er_tree) : errclass :=
  match e with
  | ErLeaf s => ESentinel s
  | ErWrap e' => er_class e'
  | ErOpaque => EOther
  end.

Lemma er_class_sentinel_iff : forall e s, er_class e = ESentinel s <-> is_cause s e = true.
Proof.
  induction e as [s'|e' IH|]; intro s; cbn [er_class is_cause].
  - split.
    + intro H. inversion H. apply Nat.eqb_refl.
    + intro H. apply Nat.eqb_eq in H. subst. reflexivity.
  - apply IH.
  - split; discriminate.
Qed.

(* any number of cause-keeping wrappers leaves the cause reachable *)
Lemma er_wraps_keep_cause : forall n s, is_cause s (er_wraps n (ErLeaf s)) = true.
Proof. induction n as [|n IH]; intro s; cbn [er_wraps is_cause]; [apply Nat.eqb_refl|apply IH]. Qed.

(* one message-only layer anywhere on the way up loses it, whatever is wrapped around it afterwards *)
Lemma er_opaque_loses_cause : forall n s, is_cause s (er_wraps n ErOpaque) = false.
Proof. induction n as [|n IH]; intro s; cbn [er_wraps is_cause]; [reflexivity|apply IH]. Qed.

(* ---------------------------------------------------------------- 2. faults *)
Inductive es_kind := EsFilter | EsFunction | EsTest.

Definition es_event (k : es_kind) (name : bytes) : tr_event :=
  match k with EsFilter => TrFilter name | EsFunction => TrFunction name | EsTest => TrTest name end.

Definition es_cbs (env : ev_env) (k : es_kind) : list (bytes * cb_kind) :=
  match k with EsFilter => e_filters env | EsFunction => e_functions env | EsTest => e_tests env end.

(* the registered callback an invocation event names *)
Definition es_lookup (env : ev_env) (k : es_kind) (name : bytes) : option cb_kind := assoc_bytes (es_cbs env k) name.

(* the binding that a lookup of name finds gets the behaviour cb *)
Fixpoint es_rebind (l : list (bytes * cb_kind)) (name : bytes) (cb : cb_kind) : list (bytes * cb_kind) :=
  match l with
  | [] => []
  | (n, c) :: r => if bytes_eqb n name then (n, cb) :: r else (n, c) :: es_rebind r name cb
  end.
Definition es_remove (l : list (bytes * cb_kind)) (name : bytes) : list (bytes * cb_kind) :=
  filter (fun p => negb (bytes_eqb (fst p) name)) l.

Definition es_with_cbs (env : ev_env) (k : es_kind) (l : list (bytes * cb_kind)) : ev_env :=
  match k with
  | EsFilter => MkEnv (e_tpls env) l (e_functions env) (e_tests env) (e_policy env)
  | EsFunction => MkEnv (e_tpls env) (e_filters env) l (e_tests env) (e_policy env)
  | EsTest => MkEnv (e_tpls env) (e_filters env) (e_functions env) l (e_policy env)
  end.

(* every invocation of the callback (k, name) fails with sentinel s; nothing else changes *)
Definition es_env_fail (k : es_kind) (name : bytes) (s : nat) (env : ev_env) : ev_env :=
  es_with_cbs env k (es_rebind (es_cbs env k) name (CbFail s)).
(* the callback is not registered *)
Definition es_env_without (k : es_kind) (name : bytes) (env : ev_env) : ev_env :=
  es_with_cbs env k (es_remove (es_cbs env k) name).

(* the fault position of the fault-free run: the first invocation of the callback is event number k of the trace *)
Definition es_first_at (t : ev_trace) (k : nat) (ev : tr_event) : Prop :=
  nth_error t k = Some ev /\ ~ In ev (firstn k t).

(* env_fail_at: the environment in which invocation number k of the fault-free trace t fails with sentinel s.
   Callbacks are identified by name in the model, so this is the callback that event names failing whenever it is
   called; the two coincide when event k is the first invocation of its callback (es_first_at), which is how
   C17_faults_surface uses it. A load event or an index outside the trace names no callback. *)
Definition env_fail_at (t : ev_trace) (k : nat) (s : nat) (env : ev_env) : ev_env :=
  match nth_error t k with
  | Some (TrFilter f) => es_env_fail EsFilter f s env
  | Some (TrFunction f) => es_env_fail EsFunction f s env
  | Some (TrTest f) => es_env_fail EsTest f s env
  | _ => env
  end.

(* ---------------------------------------------------------------- 3. what surfacing means *)
(* the error an invocation event ends in, according to the environment *)
Definition es_event_fails (env : ev_env) (ev : tr_event) : option errclass :=
  let of_cb o := match o with Some (CbFail n) => Some (ESentinel n) | _ => None end in
  match ev with
  | TrFilter f => of_cb (es_lookup env EsFilter f)
  | TrFunction f => of_cb (es_lookup env EsFunction f)
  | TrTest f => of_cb (es_lookup env EsTest f)
  | TrLoad _ => None
  end.

(* a failing invocation is the last event of the run and the outcome is its error *)
Definition es_surfaces {A} (env : ev_env) (r : outcome A) (t : ev_trace) : Prop :=
  forall t1 ev t2 e, t = t1 ++ ev :: t2 -> es_event_fails env ev = Some e -> t2 = [] /\ r = Err e.

(* Engine.Render(name, vars): the string and the error. An error comes with the empty string. *)
Definition es_go_result (r : outcome bytes) : option (bytes * option errclass) :=
  match r with
  | Ok out => Some (out, None)
  | Err e => Some ([], Some e)
  | OutOfFuel | Unmodelled => None
  end.
