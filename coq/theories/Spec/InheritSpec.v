(* C10, declarative layer: what template inheritance MEANS.

   A template t0 that extends t1 that extends ... tn (tn has no extends tag) is a chain. The chain is found by
   walking up: the template-name expression of each extends tag is evaluated in the context of THIS render
   (inh_root), so a dynamic parent is chosen anew at every render.

   inh_level     one template of a chain: its name and every block in it, wherever the block stands (top
                 level, inside another block, inside for / if / apply / spaceless bodies), in document order:
                 what collectBlocks finds
   inh_defs ch b the definitions of block b along the chain ch, most derived first
   inh_block     a block occurrence renders the FIRST definition of its name (the most derived one), whatever
                 its own body is, also when that definition is empty; where the occurrence stands (in a loop,
                 a condition, another block) is where the output goes, and the variables there are visible
   inh_parent_call
                 parent() inside the k-th definition of block b renders the (k+1)-th definition of b in the
                 same context (same variables), one level further up; no (k+1)-th definition, or no enclosing
                 block: an error
   inh_root      a template with an extends tag contributes its blocks to the chain and NOTHING else: its text,
                 prints and set tags outside blocks are not executed; the output is the output of the last
                 template of the chain rendered with inh_block / inh_parent_call over the definitions of the
                 whole chain

   The position (which block, which definition) is carried in the context fields currentBlock / blockDepth
   exactly as the engine carries it; the table of definitions is NOT read from the context: it is the static
   function inh_defs of the chain. The remaining inheritance fields of a context (blocks, parentBlocks,
   blockChain, extending, currentDefs) are written as the engine writes them (inh_book, inh_parent_ctx) so that
   contexts handed to includes and to nested templates are the engine's, but no rule of this file reads them.
   Every other node kind is rendered as the model renders it, with its bodies rendered by THIS specification;
   macro bodies and included / imported templates are separate worlds (rendered by the model: a macro body has a
   fresh context, an included template starts its own chain).
   The recursion mirrors Model/Eval.v on fuel, so that the refinement theorem (Properties/C10.v) is an equality
   for every template set, context and fuel, outcome by outcome. No proofs here. *)
From Twig Require Import Base.Bytes Base.Utf8 Model.Ast Model.Value Model.ValueOps Model.Ctx Model.TemplateSet Model.Eval.

(* ---------------------------------------------------------------- the chain and its definitions *)
Definition inh_level := (bytes * list (bytes * list node))%type.
Definition inh_chain := list inh_level.

Definition inh_level_of (tpl : bytes) (ns : list node) : inh_level := (tpl, ts_blocks ns).

(* the definitions of block b in one template *)
Definition inh_defs_in (l : inh_level) (b : bytes) : list blockdef :=
  map (fun nb => MkBd (fst l) (snd nb)) (filter (fun nb => bytes_eqb (fst nb) b) (snd l)).

(* along the chain, most derived template first *)
Definition inh_defs (ch : inh_chain) (b : bytes) : list blockdef := flat_map (fun l => inh_defs_in l b) ch.

(* ---------------------------------------------------------------- a block occurrence *)
Definition inh_block (rend : rctx -> list node -> ev_rres) (D : bytes -> list blockdef) (c : rctx) (name : bytes) : ev_rres :=
  match D name with
  | [] => ev_rfail Unmodelled c           (* a block that is no definition of the chain: not reachable from inh_root *)
  | d :: _ =>
    let '(r, c', t) := rend (rc_with_current c (Some name) (D name) 0 (bd_tpl d)) (bd_body d) in
    (r, rc_with_current c' (rc_cur_block c) (rc_cur_defs c) (rc_depth c) (rc_tpl c), t)
  end.

(* ---------------------------------------------------------------- parent() *)
Definition inh_parent_call (rend : rctx -> list node -> ev_rres) (D : bytes -> list blockdef) (c : rctx) : ev_rres :=
  match rc_cur_block c with
  | None => ev_rfail (Err EOther) c
  | Some b =>
    match nth_error (D b) (S (rc_depth c)) with
    | None => ev_rfail (Err EOther) c
    | Some d =>
      let '(r, c', t) := rend (rc_with_depth c (S (rc_depth c)) (bd_tpl d)) (bd_body d) in
      (r, rc_with_depth c' (rc_depth c) (rc_tpl c), t)
    end
  end.

(* a print tag: the value parent() returns is run here; mrend renders macro bodies *)
Definition inh_print (ev : rctx -> expr -> ev_res) (rend mrend : rctx -> list node -> ev_rres) (env : ev_env)
                     (D : bytes -> list blockdef) (c : rctx) (e : expr) : ev_rres :=
  ev_rexpr (ev c e) c (fun v =>
    match vo_view v with
    | KCallable tpl nm args => let '(r, t) := ev_call_macro ev mrend env c tpl nm args in (r, c, t)
    | KParent => inh_parent_call rend D c
    | _ => match vo_to_str v with Some s => ev_rret s c | None => ev_rfail Unmodelled c end
    end).

(* ---------------------------------------------------------------- a node, a body *)
Definition inh_node (ev : rctx -> expr -> ev_res) (rend mrend root : rctx -> list node -> ev_rres) (env : ev_env)
                    (D : bytes -> list blockdef) (c : rctx) (n : node) : ev_rres :=
  match n with
  | NBlock name _ => inh_block rend D c name
  | NPrint e => inh_print ev rend mrend env D c e
  | _ => render_node ev rend root env c n
  end.

Fixpoint inh_render (fuel : nat) (env : ev_env) (D : bytes -> list blockdef) (c : rctx) (ns : list node) {struct fuel} : ev_rres :=
  match fuel with
  | O => (OutOfFuel, c, [])
  | S fu =>
    match ns with
    | [] => ev_rret [] c
    | n :: rest =>
      ev_rseq (inh_node (eval fu env) (inh_render fu env D) (render fu env) (render_root fu env) env D c n)
              (fun c1 => inh_render fu env D c1 rest)
    end
  end.

(* ---------------------------------------------------------------- the walk up the chain *)
(* the extends tag of a template: the last one among its top-level nodes *)
Fixpoint inh_extends_of (ns : list node) (acc : option expr) : option expr :=
  match ns with
  | [] => acc
  | NExtends e :: r => inh_extends_of r (Some e)
  | _ :: r => inh_extends_of r acc
  end.

(* the bookkeeping fields as the engine writes them (read by no rule of this file) *)
Definition inh_book (c : rctx) (ns : list node) : rctx :=
  rc_with_blocks c (fst (ev_first_pass ns (rc_extending c) (rc_blocks c) None))
                 (Some (ts_collect (rc_tpl c) ns (match rc_chain c with Some ch => ch | None => [] end))).

(* the context the parent template is rendered in: the variables and the parent contexts of the child, no
   macros, no current block, the sandbox flag; then the bookkeeping fields *)
Definition inh_parent_ctx (c : rctx) (name : bytes) (pnodes : list node) : rctx :=
  MkRc (rc_vars c) (rc_parent c) [] (rc_blocks c) (ev_parent_blocks pnodes (rc_parent_blocks c))
       (match rc_chain c with Some ((_ :: _) as ch) => Some ch | _ => None end)
       true None [] 0 false (rc_sandboxed c) (Some name) name.

(* derived: the levels below this template (more derived), most derived first *)
Fixpoint inh_root (fuel : nat) (env : ev_env) (derived : inh_chain) (c : rctx) (ns : list node) {struct fuel} : ev_rres :=
  match fuel with
  | O => (OutOfFuel, c, [])
  | S fu =>
    if negb (ts_wf ns) then ev_rfail Unmodelled c      (* a template with two blocks of one name: outside the model *)
    else
      let ch := derived ++ [inh_level_of (rc_tpl c) ns] in
      let c1 := inh_book c ns in
      match inh_extends_of ns None with
      | None => inh_render fu env (inh_defs ch) c1 ns
      | Some e =>
        let c2 := rc_with_extending c1 true in
        ev_rexpr (ev_load (eval fu env) env c2 e) c2 (fun nl =>
          match snd nl with
          | None => ev_rfail (Err ENotFound) c2
          | Some pnodes =>
            let '(r, _, t) := inh_root fu env ch (inh_parent_ctx c2 (fst nl) pnodes) pnodes in (r, c2, t)
          end)
      end
  end.

(* Engine.Render(name, vars) according to the specification *)
Definition inh_render_template (fuel : nat) (env : ev_env) (name : bytes) (vars : list (bytes * value))
  : outcome bytes * ev_trace :=
  match ts_lookup env name with
  | None => (Err ENotFound, [TrLoad name])
  | Some ns =>
    let c := rc_derive (rc_fresh vars name) None false (Some name) in
    let '(r, _, t) := inh_root fuel env [] c ns in (r, TrLoad name :: t)
  end.

(* ---------------------------------------------------------------- the walk as a relation (chains as data) *)
(* inh_walk env fuel derived c ns ch bc bns fu tr: rendering template ns in context c with fuel finds, after
   following every extends tag, the whole chain ch, whose last template bns is rendered in context bc with fuel
   fu; tr is the trace of the walk. A derivation is finite: a chain that reaches itself again has none. *)
Inductive inh_walk (env : ev_env) : nat -> inh_chain -> rctx -> list node -> inh_chain -> rctx -> list node -> nat -> ev_trace -> Prop :=
| inh_walk_base : forall fu derived c ns,
    ts_wf ns = true -> inh_extends_of ns None = None ->
    inh_walk env (S fu) derived c ns (derived ++ [inh_level_of (rc_tpl c) ns]) (inh_book c ns) ns fu []
| inh_walk_step : forall fu derived c ns e v t pname pnodes ch bc bns fu' tr,
    ts_wf ns = true -> inh_extends_of ns None = Some e ->
    eval fu env (rc_with_extending (inh_book c ns) true) e = (Ok v, t) ->
    vo_to_str v = Some pname -> ev_relative pname = false -> ts_lookup env pname = Some pnodes ->
    inh_walk env fu (derived ++ [inh_level_of (rc_tpl c) ns])
             (inh_parent_ctx (rc_with_extending (inh_book c ns) true) pname pnodes) pnodes ch bc bns fu' tr ->
    inh_walk env (S fu) derived c ns ch bc bns fu' (t ++ TrLoad pname :: tr).

(* top-level nodes of a child that are neither a block nor the extends tag and hold neither blocks nor macros *)
Definition inh_silent (n : node) : bool :=
  match n with
  | NExtends _ | NBlock _ _ => false
  | _ => match ts_blocks_node n, ts_macros_node n with [], [] => true | _, _ => false end
  end.
