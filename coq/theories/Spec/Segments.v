(* Templates as sequences of literal text and tags: the objects C04/C13/C14 quantify over. *)
From Twig Require Import Base.Bytes Model.Lexer.

Inductive seg := SText (t : bytes) | STag (k : okind) (content : bytes) (ctrim : bool).

Definition tag_body (k : okind) (c : bytes) (tr : bool) : bytes := c ++ (if tr then [DS] else []) ++ closer k.
Definition seg_src (s : seg) : bytes :=
  match s with SText t => t | STag k c tr => pattern k ++ tag_body k c tr end.
Definition unparse (segs : list seg) : bytes := flat_map seg_src segs.
Definition seg_tok (s : seg) : otok := match s with SText t => OText t | STag k c tr => OTag k c tr end.

(* no tag opener starts inside t when t is followed by next *)
Definition clean (t next : bytes) : Prop :=
  forall i, i < length t -> opener_at (skipn i (t ++ next)) = None.

(* well-formed segment lists: text is non-empty, contains no opener, does not end in a backslash, is
   not followed by more text; a tag's opener is read as written (no dash right after a plain opener)
   and its closer is the first closer after the opener *)
Fixpoint wf_segs (segs : list seg) : Prop :=
  match segs with
  | [] => True
  | SText t :: rest =>
      t <> [] /\ clean t (unparse rest) /\ last t x00 <> BSL /\
      match rest with SText _ :: _ => False | _ => True end /\ wf_segs rest
  | STag k c tr :: rest =>
      opener_at (pattern k ++ tag_body k c tr ++ unparse rest) = Some k /\
      find_close_large k (tag_body k c tr ++ unparse rest) = Some (c, tr, unparse rest) /\
      wf_segs rest
  end.

(* a simple sufficient condition for the closer requirement: no right brace inside the content,
   and an undashed closer is not preceded by a dash *)
Definition simple_content (c : bytes) (tr : bool) : Prop :=
  forallb (fun b => negb (Byte.eqb b RB)) c = true /\ (tr = false -> c <> [] -> last c x00 <> DS).

(* what a template consisting of text and comments renders to *)
Definition seg_out (s : seg) : bytes := match s with SText t => t | STag _ _ _ => [] end.

(* ---- C13: the dash-free, hand-trimmed counterpart of a template ---- *)
Definition undash (k : okind) : okind :=
  match k with OVarT => OVar | OBlockT => OBlock | k => k end.

(* a text segment loses its leading whitespace exactly when the tag before it has a dashed closer,
   its trailing whitespace exactly when the tag after it has a dashed opener; a text that becomes
   empty disappears; every tag loses its dashes and keeps its content *)
Fixpoint strip_dashes (prev_trim : bool) (segs : list seg) : list seg :=
  match segs with
  | [] => []
  | SText s :: rest =>
      let s1 := if prev_trim then trim_left s else s in
      let s2 := match rest with STag k _ _ :: _ => if open_trim k then trim_right s1 else s1 | _ => s1 end in
      match s2 with [] => strip_dashes false rest | _ => SText s2 :: strip_dashes false rest end
  | STag OComment c tr :: rest => STag OComment c tr :: strip_dashes false rest
  | STag k c tr :: rest => STag (undash k) c false :: strip_dashes tr rest
  end.

Definition undash_tok (t : otok) : otok :=
  match t with
  | OTag OComment c tr => OTag OComment c tr
  | OTag k c tr => OTag (undash k) c false
  | t => t
  end.

(* empty text tokens render nothing and are dropped from the comparison *)
Definition nonempty_tok (t : otok) : bool := match t with OText [] => false | _ => true end.
Definition skeleton (ts : list otok) : list otok := filter nonempty_tok ts.
