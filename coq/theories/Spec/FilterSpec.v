(* What property C19 demands of the built-in filters, written without looking at the Go code:
   Twig's index rule for slice, what an ordered permutation is, which values are empty, what
   merging means, and exact decimal arithmetic for abs, round and number_format.
   Executable definitions (extracted for the case generator) and predicates; no proofs. *)
From Twig Require Import Base.Bytes Base.Utf8F Model.Value.
From Coq Require Import NArith ZArith Sorting.Permutation Sorting.Sorted.
Local Open Scope Z_scope.

(* ------------------------------------------------------------------ slice *)
(* Twig: slice(start, length) on a sequence of n items.
   start >= 0 counts from the beginning and is clamped to n; a negative start counts from the end
   and is clamped to 0. An omitted length means to the end; length >= 0 takes that many items, as
   far as there are; a negative length stops that many items before the end, never before start. *)
Definition fsp_slice_from (n start : Z) : Z :=
  if start >=? 0 then Z.min start n else Z.max (n + start) 0.
Definition fsp_slice_to (n from : Z) (len : option Z) : Z :=
  match len with
  | None => n
  | Some l => if l >=? 0 then Z.min (from + l) n else Z.max (n + l) from
  end.
Definition fsp_slice_list {A} (l : list A) (start : Z) (len : option Z) : list A :=
  let n := Z.of_nat (length l) in
  let from := fsp_slice_from n start in
  let to := fsp_slice_to n from len in
  firstn (Z.to_nat (to - from)) (skipn (Z.to_nat from) l).
(* on a string the items are its code points *)
Definition fsp_slice_string (s : bytes) (start : Z) (len : option Z) : bytes :=
  uf8_encode (fsp_slice_list (uf8_cps s) start len).

(* ------------------------------------------------------------------ sort *)
(* ys is xs put in order: the same items, and no item is less than an earlier one *)
Definition fsp_ordered {A} (lt : A -> A -> bool) (ys : list A) : Prop :=
  StronglySorted (fun a b => lt b a = false) ys.
Definition fsp_sorted_perm {A} (lt : A -> A -> bool) (xs ys : list A) : Prop :=
  Permutation xs ys /\ fsp_ordered lt ys.

(* ------------------------------------------------------------------ default *)
(* the empty values: null (which is also what an undefined variable evaluates to), the empty
   string, false, a list or a map without entries, whatever its Go representation. Numbers,
   zero included, and the string "0" are not empty. *)
Definition fsp_empty (v : value) : bool :=
  match v with
  | VNull | VStr [] | VBool false | VList _ [] | VMap _ [] => true
  | _ => false
  end.

(* ------------------------------------------------------------------ merge, keys *)
(* the value under key k (given by its text) in a map: entries are unique per key *)
Fixpoint fsp_lookup (key_text : value -> bytes) (m : list (value * value)) (k : bytes) : option value :=
  match m with
  | [] => None
  | (k', x) :: r => if bytes_eqb (key_text k') k then Some x else fsp_lookup key_text r k
  end.
(* later maps win: the value under k in the merge of ms is the one of the last map that has k *)
Fixpoint fsp_merged_lookup (key_text : value -> bytes) (ms : list (list (value * value))) (k : bytes) : option value :=
  match ms with
  | [] => None
  | m :: r =>
    match fsp_merged_lookup key_text r k with
    | Some x => Some x
    | None => fsp_lookup key_text m k
    end
  end.

(* ------------------------------------------------------------------ exact decimal arithmetic *)
(* a decimal number is mantissa / 10^scale *)
Record fsp_dec := { fd_m : Z; fd_sc : nat }.
Inductive fsp_method := FMCommon | FMCeil | FMFloor.

(* x / d (d > 0) to an integer: nearest with ties away from zero; up; down *)
Definition fsp_round_div (m : fsp_method) (x d : Z) : Z :=
  match m with
  | FMFloor => x / d
  | FMCeil => - ((- x) / d)
  | FMCommon => Z.sgn x * ((2 * Z.abs x + d) / (2 * d))
  end.

(* x rounded at p decimal places (p may be negative): the result as a decimal *)
Definition fsp_dec_round (m : fsp_method) (x : fsp_dec) (p : Z) : fsp_dec :=
  let sc := Z.of_nat (fd_sc x) in
  if p >=? sc then x
  else
    let k := fsp_round_div m (fd_m x) (10 ^ (sc - p)) in
    if p >=? 0 then {| fd_m := k; fd_sc := Z.to_nat p |}
    else {| fd_m := k * 10 ^ (- p); fd_sc := 0 |}.

Definition fsp_dec_abs (x : fsp_dec) : fsp_dec := {| fd_m := Z.abs (fd_m x); fd_sc := fd_sc x |}.

(* trailing zeros of the fraction removed *)
Fixpoint fsp_dec_strip (m : Z) (sc : nat) : fsp_dec :=
  match sc with
  | O => {| fd_m := m; fd_sc := O |}
  | S sc' => if m mod 10 =? 0 then fsp_dec_strip (m / 10) sc' else {| fd_m := m; fd_sc := sc |}
  end.

Definition fsp_digit (n : N) : byte := uf8_byte (48 + n).
Fixpoint fsp_n_digits (fuel : nat) (n : N) (acc : bytes) : bytes :=
  match fuel with
  | O => acc
  | S f =>
    let d := fsp_digit (N.modulo n 10) in
    if N.ltb n 10 then d :: acc else fsp_n_digits f (N.div n 10) (d :: acc)
  end.
Definition fsp_n_to_dec (n : N) : bytes := fsp_n_digits (S (N.size_nat n)) n [].

(* exactly k digits: zeros in front when there are fewer *)
Definition fsp_pad_left (k : nat) (s : bytes) : bytes := repeat x30 (k - length s) ++ s.

(* the text of a decimal with exactly its scale digits after the point (no point when scale = 0) *)
Definition fsp_dec_fixed (x : fsp_dec) (point : bytes) : bytes * bytes :=
  let a := Z.to_N (Z.abs (fd_m x)) in
  let d := (10 ^ N.of_nat (fd_sc x))%N in
  (fsp_n_to_dec (N.div a d),
   match fd_sc x with O => [] | sc => point ++ fsp_pad_left sc (fsp_n_to_dec (N.modulo a d)) end).

(* how a number prints: shortest form, no trailing zeros, no sign for zero *)
Definition fsp_dec_text (x : fsp_dec) : bytes :=
  let y := fsp_dec_strip (fd_m x) (fd_sc x) in
  let '(ip, fp) := fsp_dec_fixed y [x2e] in
  (if fd_m y <? 0 then [x2d] else []) ++ ip ++ fp.

Fixpoint fsp_group (sep : bytes) (digits : bytes) : bytes :=
  match digits with
  | [] => []
  | c :: r =>
    if (Nat.eqb (Nat.modulo (length r) 3) 0 && negb (Nat.eqb (length r) 0))%bool
    then c :: sep ++ fsp_group sep r else c :: fsp_group sep r
  end.

(* number_format(decimals, point, separator): rounded half away from zero at max(decimals, 0)
   places, the integer digits in groups of three, exactly that many digits after the point *)
Definition fsp_dec_number_format (x : fsp_dec) (decimals : Z) (point sep : bytes) : bytes :=
  let d := Z.max decimals 0 in
  let sc := Z.of_nat (fd_sc x) in
  let y := if d >=? sc then {| fd_m := fd_m x * 10 ^ (d - sc); fd_sc := Z.to_nat d |}
           else fsp_dec_round FMCommon x d in
  let '(ip, fp) := fsp_dec_fixed y point in
  (if fd_m y <? 0 then [x2d] else []) ++ fsp_group sep ip ++ fp.

(* ---- the classes on which binary floating point is known to leave exact decimal arithmetic ---- *)
(* m / 10^sc is a binary fraction with at most 53 significant bits *)
Definition fsp_binary_exact (x : fsp_dec) : bool :=
  let f := 5 ^ Z.of_nat (fd_sc x) in
  ((fd_m x) mod f =? 0) && (Z.abs (fd_m x / f) <? 2 ^ 53).
(* x lies exactly half way between two neighbours at p places *)
Definition fsp_dec_tie (x : fsp_dec) (p : Z) : bool :=
  let sc := Z.of_nat (fd_sc x) in
  if p >=? sc then false else 2 * (Z.abs (fd_m x) mod 10 ^ (sc - p)) =? 10 ^ (sc - p).
(* x has no digits beyond p places, but more than 0 places *)
Definition fsp_dec_on_grid (x : fsp_dec) (p : Z) : bool :=
  let y := fsp_dec_strip (fd_m x) (fd_sc x) in
  (Z.of_nat (fd_sc y) <=? p) && negb (Nat.eqb (fd_sc y) 0).

(* round(common) and number_format: a decimal tie whose binary neighbour is not the tie itself *)
Definition fsp_tie_not_binary_exact (x : fsp_dec) (p : Z) : bool :=
  fsp_dec_tie x p && negb (fsp_binary_exact x).
(* number_format only: a tie that is exact in binary, where strconv rounds half to even *)
Definition fsp_tie_binary_exact_even (x : fsp_dec) (p : Z) : bool :=
  fsp_dec_tie x p && fsp_binary_exact x &&
  Z.even (Z.abs (fd_m x) / 10 ^ (Z.of_nat (fd_sc x) - Z.max p 0)).
(* round(ceil) and round(floor): already on the grid, but not a binary fraction *)
Definition fsp_grid_not_binary_exact (x : fsp_dec) (p : Z) : bool :=
  fsp_dec_on_grid x p && negb (fsp_binary_exact x).
