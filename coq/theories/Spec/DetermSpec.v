(* C03: the side conditions of the determinism theorems, and what equal as finite maps means.

   dt_vok st na v  every map inside v has keys that are ints or strings, pairwise different as Go keys (every
                   map a Go program can build from such keys); with st = true their string forms are
                   pairwise different as well (what any map[string]T or map[int]T satisfies; a
                   map[interface{}]T holding both 1 and the string 1 does not); with na = true, additionally
                   no non-nil pointer and no func value anywhere in v
   dt_eok gm e     when gm = true (hash literals are evaluated by ranging over a Go map keyed by node):
                   the keys of every hash literal in e are string or integer literals with pairwise
                   different texts; no condition when gm = false
   dt_veq v v'     v and v' are the same value up to the order in which the entries of every map are listed *)
From Coq Require Import List Permutation.
From Twig Require Import Base.Bytes Model.Ast Model.Value Model.Determ.
Import ListNotations.

Inductive dt_vok (st na : bool) : value -> Prop :=
| vok_null : dt_vok st na VNull
| vok_bool b : dt_vok st na (VBool b)
| vok_int z : dt_vok st na (VInt z)
| vok_str s : dt_vok st na (VStr s)
| vok_list t xs : Forall (dt_vok st na) xs -> dt_vok st na (VList t xs)
| vok_map t m :
    NoDup (map (fun kv => dt_key_code (fst kv)) m) ->
    (st = true -> NoDup (map (fun kv => dt_keystr (fst kv)) m)) ->
    Forall (fun kv => dt_is_key (fst kv) = true) m ->
    Forall (fun kv => dt_vok st na (snd kv)) m ->
    dt_vok st na (VMap t m)
| vok_struct ty fs : Forall (fun f => dt_vok st na (snd f)) fs -> dt_vok st na (VStruct ty fs)
| vok_ptr_nil : dt_vok st na (VPtr None)
| vok_ptr v : na = false -> dt_vok st na v -> dt_vok st na (VPtr (Some v))
| vok_opaque id : na = false -> dt_vok st na (VOpaque id)
| vok_macro t n : dt_vok st na (VMacro t n)
| vok_module t : dt_vok st na (VModule t).

Definition dt_env_ok (st na : bool) (env : denv) : Prop := Forall (fun f => dt_vok st na (snd f)) env.

Definition dt_lit_key (e : expr) : option bytes :=
  match e with
  | ELit (LStr s) => Some s
  | ELit (LInt z) => Some (dt_itoa z)
  | _ => None
  end.

Definition dt_hash_keys_distinct (kvs : list (expr * expr)) : Prop :=
  exists strs, map (fun kv => dt_lit_key (fst kv)) kvs = map Some strs /\ NoDup strs.

Inductive dt_eok (gm : bool) : expr -> Prop :=
| eok_lit l : dt_eok gm (ELit l)
| eok_var x : dt_eok gm (EVar x)
| eok_attr e a : dt_eok gm e -> dt_eok gm (EAttr e a)
| eok_item e i : dt_eok gm e -> dt_eok gm i -> dt_eok gm (EItem e i)
| eok_arr es : Forall (dt_eok gm) es -> dt_eok gm (EArr es)
| eok_hash kvs :
    (gm = true -> dt_hash_keys_distinct kvs) ->
    Forall (fun kv => dt_eok gm (fst kv) /\ dt_eok gm (snd kv)) kvs ->
    dt_eok gm (EHash kvs)
| eok_filter e f args : dt_eok gm e -> Forall (dt_eok gm) args -> dt_eok gm (EFilter e f args)
| eok_call f args : Forall (dt_eok gm) args -> dt_eok gm (ECall f args)
(* forms outside the modelled fragment evaluate to Unmodelled whatever they contain *)
| eok_un o e : dt_eok gm (EUn o e)
| eok_bin o l r : dt_eok gm (EBin o l r)
| eok_cond c t f : dt_eok gm (ECond c t f)
| eok_modcall m f args : dt_eok gm (EModCall m f args)
| eok_test e t args neg : dt_eok gm (ETest e t args neg).

Definition dt_node_modelled (n : node) : bool :=
  match n with
  | NText _ | NPrint _ | NSet _ _ | NIf _ _ | NFor _ _ _ _ _ => true
  | _ => false
  end.

Inductive dt_nok (gm : bool) : node -> Prop :=
| nok_text s : dt_nok gm (NText s)
| nok_print e : dt_eok gm e -> dt_nok gm (NPrint e)
| nok_set x e : dt_eok gm e -> dt_nok gm (NSet x e)
| nok_if branches els :
    Forall (fun b => dt_eok gm (fst b) /\ Forall (dt_nok gm) (snd b)) branches ->
    (forall ns, els = Some ns -> Forall (dt_nok gm) ns) ->
    dt_nok gm (NIf branches els)
| nok_for k v seq body els :
    dt_eok gm seq -> Forall (dt_nok gm) body ->
    (forall ns, els = Some ns -> Forall (dt_nok gm) ns) ->
    dt_nok gm (NFor k v seq body els)
| nok_other n : dt_node_modelled n = false -> dt_nok gm n.

Inductive dt_veq : value -> value -> Prop :=
| veq_refl v : dt_veq v v
| veq_list t xs ys : Forall2 dt_veq xs ys -> dt_veq (VList t xs) (VList t ys)
| veq_map t m m' m'' :
    Permutation m m'' ->
    Forall2 (fun a b => fst a = fst b /\ dt_veq (snd a) (snd b)) m'' m' ->
    dt_veq (VMap t m) (VMap t m')
| veq_struct ty fs fs' :
    Forall2 (fun a b => fst a = fst b /\ dt_veq (snd a) (snd b)) fs fs' ->
    dt_veq (VStruct ty fs) (VStruct ty fs')
| veq_ptr v v' : dt_veq v v' -> dt_veq (VPtr (Some v)) (VPtr (Some v')).

(* two context descriptions that list the same variables, in any order, with values equal as above *)
Definition dt_env_veq (ctx ctx' : denv) : Prop :=
  exists ctx'', Permutation ctx ctx'' /\ Forall2 (fun a b => fst a = fst b /\ dt_veq (snd a) (snd b)) ctx'' ctx'.
